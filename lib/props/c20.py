"""C20 - project scaffolding is all-or-nothing and accepts only crate-safe names.

Pipeline (custom_main, same protocol as bin/check):
  1. regenerate coq/Gen/Gen_c20.v from the source, rebuild Properties/C20.vo, pins, forbidden scan;
  2. build the model runner (group cli), the harness vh_c20 (its own crate harness/cli: it `include!`s the real
     new_project.rs, so the private validator / renderer of the working tree are called directly) and the REAL
     `sf` binary (cargo build -p star_frame_cli in the repo, target dir harness/target/cli);
  3. names: >= 10^5 names through the real validator and the model; a sample through the real `sf new` binary;
  4. faults: the real `sf new` under `strace -e inject=<syscall>:error=<errno>:when=<k>` for every mkdir / openat(O_CREAT) /
     write / rename of the scaffolding sequence, with pre-existing file / dir / symlink targets; the resulting
     directory tree is compared with the model's and judged directly by `tree_predicate`;
  5. verdict / replay / evidence.
"""
import json
import os
import re
import shutil
import subprocess
import sys
import tempfile

from lib import common as C

ID = "C20"
GROUP = "cli"
BIN = "vh_c20"
COQ_TARGETS = ["Properties/C20.vo"]
CLI_CRATE = os.path.join(C.HARNESS, "cli")
CLI_TARGET = os.path.join(C.HARNESS, "target", "cli")

RULE = ("names: every string of length <= 2 over [a-zA-Z0-9_-. /], seeded random strings of length 3-6 over that alphabet "
        "and over the near-valid alphabet [a-z0-9_-], every keyword of is_rust_keyword with 14 variations (case, "
        "prefix/suffix, '-'/'_' splits, surrounding whitespace), Unicode probes (every White_Space char and look-alike "
        "non-space controls around / inside a valid name, non-ASCII letters and digits), a rendering sample (accepted "
        "names with a random base58 key: length + hash of every rendered template); a sample of them through the real "
        "`sf new` binary. faults: the real binary under strace fault injection for EVERY index of every injectable "
        "system-call class of the scaffolding sequence (mkdir, openat O_CREAT, write, rename; errno EIO, plus EEXIST / "
        "ENOENT / ENOSPC / EACCES variants), crossed with the target being absent, a file, an empty dir, a non-empty dir, "
        "a symlink to a file / to a dir / dangling / to itself, plus multi-fault and failing-cleanup runs. "
        "non-trivial name = accepted, or rejected by a rule other than the first-character rule, or changed by trimming; "
        "non-trivial fault case = an injected call was reached (strace reports INJECTED) or a pre-existing target; "
        "distinct = distinct case encodings")
TRUSTED = [
    "Coq 8.16.1 kernel; vm_compute in Examples and in the per-template side conditions",
    "extraction (ExtrOcamlBasic only) + runner/driver.ml",
    "harness/cli/src/main.rs (vh_c20: includes the real new_project.rs; maps rejection messages to reason codes)",
    "tools/gen_extra_c20.py (keyword list, placeholder chain, template bytes, file / directory tables, staging format; "
    "pins the shape of validate_program_name, TemplateValues::new, scaffold_project by regular expressions)",
    "lib/props/c20.py: strace driver, tree scanner, independent reference predicate",
    "strace 's syscall fault injection (the injected call is not executed) and the Linux kernel's real behaviour for the other calls",
    "coq/Cli/Fs.v: the kernel failure rules of mkdir/open/write/rename and std::fs::create_dir_all / fs::write / "
    "remove_dir_all are MODELLED (tied by the fault-injection replay, not verified)",
    "convert_case 0.8 Case::Pascal and char::is_whitespace are modelled on the validator's image / by the Unicode "
    "White_Space table (tied by the name correspondence)",
]
ASSUMPTIONS = [
    "fault model: any set of failing mkdir / open / write / rename system calls (a failing call has no effect); "
    "the property's single failure is the instance one_fault; a crash (power loss) between calls is outside the model",
    "the best-effort cleanup `let _ = fs::remove_dir_all(staging)` succeeds (when it fails too the staging directory "
    "stays: theorem C20_cleanup_failure_leaves_staging, replayed on the real binary with a second injection)",
    "no concurrent process creates the target between the exists() check and the final rename",
    "only the final component of a path may be a symbolic link; the output directory is `.`",
    "the fresh keypair (base58 public key without '{', JSON text) is an input of the model; that the id written into "
    "src/lib.rs is the public key of the written keypair file is checked on the real tree with solana-keypair",
]

WS = [9, 10, 11, 12, 13, 32, 0x85, 0xA0, 0x1680] + list(range(0x2000, 0x200B)) + [0x2028, 0x2029, 0x202F, 0x205F, 0x3000]
ALPHABET = [ord(c) for c in "abcdefghijklmnopqrstuvwxyzABCDEFGHIJKLMNOPQRSTUVWXYZ0123456789_-. /"]
NEAR = [ord(c) for c in "abcdefghijklmnopqrstuvwxyz0123456789_-"]
B58 = "123456789ABCDEFGHJKLMNPQRSTUVWXYZabcdefghijkmnopqrstuvwxyz"
NAME_RE = re.compile(r"^[a-z](?:[-_]?[a-z0-9])*$")
ERRNO = {"EIO": 5, "ENOENT": 2, "EEXIST": 17, "ENOSPC": 28, "EACCES": 13, "EXDEV": 18, "EROFS": 30}
ERRNAME = {v: k for k, v in ERRNO.items()}
CLS = ["mkdir", "openat", "write", "rename"]
STAGES = [
    (1, "Invalid program name"), (2, "already exists"), (3, "Failed to create staging directory"),
    (4, "Unable to allocate a temporary staging"), (5, "Failed to create scaffold directories"),
    (6, "Failed to write scaffold files"), (7, "Failed to create keypair directory"),
    (8, "Failed to write program keypair"), (9, "Failed to move scaffold"),
]

_SRC = None


def src():
    """tables regenerated from the repo's working tree (the same extractor feeds coq/Gen/Gen_c20.v)"""
    global _SRC
    if _SRC is None:
        sys.path.insert(0, os.path.join(C.VERIF, "tools"))
        import gen_extra_c20
        gen_extra_c20.REPO = C.REPO
        _SRC = gen_extra_c20.extract(strict=False)
    return _SRC


# ------------------------------------------------------------------------------------------------
# independent reference (the property text, not the model)
def ref_trim(s):
    cps = [ord(c) for c in s]
    i, j = 0, len(cps)
    while i < j and cps[i] in WS:
        i += 1
    while j > i and cps[j - 1] in WS:
        j -= 1
    return s[i:j]


def ref_accepts(raw):
    n = ref_trim(raw)
    return bool(NAME_RE.match(n)) and n.replace("-", "_") not in src()["keywords"]


def ref_pascal(n):
    words = []
    for part in re.split(r"[-_]", n):
        words += re.findall(r"[a-z]+|[0-9]+", part)
    return "".join(w[:1].upper() + w[1:] for w in words)


def ref_values(n, pk):
    return {"name_lowercase": n, "name_lowercase_underscore": n.replace("-", "_"), "name_uppercase": n.upper(),
            "name_pascalcase": ref_pascal(n), "pubkey": pk}


def ref_render(text, n, pk):
    v = ref_values(n, pk)
    for pat, field in src()["chain"]:
        text = text.replace(pat, v[field])
    return text


def poly_hash(s):
    h = 7
    for c in s:
        h = (h * 1000003 + ord(c) + 1) % 2305843009213693951
    return h


def lp(s):
    return [len(s)] + [ord(c) for c in s]


def unlp(xs, i):
    n = xs[i]
    return "".join(chr(c) for c in xs[i + 1:i + 1 + n]), i + 1 + n


# ------------------------------------------------------------------------------------------------
# name cases: ints = lp(pk) ++ raw
def name_case(raw, pk=""):
    return lp(pk) + [ord(c) for c in raw]


def decode_name_case(ints):
    pk, i = unlp(ints, 0)
    return pk, "".join(chr(c) for c in ints[i:])


def gen_name_cases(rng, tier):
    out = []
    seen = set()

    def add(raw, pk=""):
        key = (raw, pk)
        if key in seen:
            return
        seen.add(key)
        out.append(("n%d" % len(out), name_case(raw, pk)))

    add("")
    for a in ALPHABET:
        add(chr(a))
        for b in ALPHABET:
            add(chr(a) + chr(b))
    if tier == "thorough":
        for a in ALPHABET:
            for b in ALPHABET:
                for c in ALPHABET:
                    add(chr(a) + chr(b) + chr(c))
    kws = src()["keywords"]
    for k in kws:
        for v in (k, k + "x", "x" + k, k.upper(), k.capitalize(), " " + k + "\n", k[:-1], "r-" + k, k + "-a", k + "_",
                  "a-" + k, "a_" + k, k + "2", "　" + k + " ", k.lower()):
            add(v)
        for i in range(1, len(k)):
            add(k[:i] + "-" + k[i:])
            add(k[:i] + "_" + k[i:])
    # keywords containing '_' do not exist today; probe the normalisation anyway with synthetic splits
    for v in ("counter", "counter_program", "counter-program", "counter2", "Counter", "9counter", "counter--program",
              "counter__program", "counter-", "counter_", "counter!", "counter program", "a-_b", "a_-b", "a-b-c_d9",
              "z", "a0", "a-0", "a_0-b", "-a", "_a", ".a", "a.b", "a/b", "a\tb", "aé", "éa", "аbc", "abcа",
              "a١", "ａbc", "a\U0001F600", "a​b", "​a", "a​", "﻿a", "a﻿", "a\x00b"):
        add(v)
    for w in WS + [0x1C, 0x1D, 0x1E, 0x1F, 0x200B, 0x200C, 0x2060, 0xFEFF, 0x180E, 0x7F, 0x00]:
        ch = chr(w)
        for v in (ch + "ab-c", "ab-c" + ch, ch + "ab-c" + ch, ch + ch + "x9" + ch, "ab" + ch + "c", ch, ch + ch,
                  ch + "fn" + ch, ch + "-a", "a-" + ch):
            add(v)
    n_full, n_near, n_render = (30000, 65000, 300) if tier == "quick" else (400000, 800000, 5000)
    for _ in range(n_full):
        ln = rng.range(3, 6)
        add("".join(chr(rng.choice(ALPHABET)) for _ in range(ln)))
    for _ in range(n_near):
        ln = rng.range(3, 6) if rng.chance(7, 8) else rng.range(7, 14)
        s = chr(rng.choice(NEAR[:26] if rng.chance(9, 10) else NEAR)) + "".join(chr(rng.choice(NEAR)) for _ in range(ln - 1))
        if rng.chance(1, 16):
            s = chr(rng.choice(WS)) + s
        if rng.chance(1, 16):
            s = s + chr(rng.choice(WS))
        add(s)
    for _ in range(n_render):
        ln = rng.range(1, 12)
        s = chr(rng.choice(NEAR[:26]))
        while len(s) < ln:
            c = chr(rng.choice(NEAR))
            if c in "-_" and s[-1] in "-_":
                continue
            s += c
        if s[-1] in "-_":
            s += "z"
        pk = "".join(rng.choice(B58) for _ in range(rng.choice([32, 43, 44])))
        add(s, pk)
    return out


def name_predicate(ints, obs):
    """the property judged on the real validator's / renderer's observation"""
    pk, raw = decode_name_case(ints)
    if obs is None or (obs and obs[0] == "UNPARSEABLE"):
        return "no observation from the implementation"
    want = ref_accepts(raw)
    if obs[0] != 0:
        if want:
            return "name %r matches the documented strict subset but is rejected (reason %s)" % (ref_trim(raw), obs[0])
        if not 1 <= obs[0] <= 6:
            return "unexpected rejection code %s" % obs[0]
        return None
    if not want:
        return "name %r is accepted but is outside the documented strict subset" % ref_trim(raw)
    n = ref_trim(raw)
    i = 1
    got = []
    for _ in range(5):
        s, i = unlp(obs, i)
        got.append(s)
    v = ref_values(n, pk)
    exp = [v["name_lowercase"], v["name_lowercase_underscore"], v["name_uppercase"], v["name_pascalcase"],
           v["name_lowercase_underscore"] + "-keypair.json"]
    if got != exp:
        return "derived names %r differ from the documented ones %r" % (got, exp)
    if not re.match(r"^[a-z][a-z0-9_]*$", got[1]) or got[1] in src()["keywords"]:
        return "library name %r is not a usable Rust identifier" % got[1]
    if not re.match(r"^[A-Z][A-Za-z0-9]*$", got[3]):
        return "type name prefix %r is not a usable Rust identifier" % got[3]
    if pk:
        rest = obs[i:]
        files = src()["files"]
        if len(rest) != 2 * len(files):
            return "expected %d (len, hash) pairs, got %d ints" % (len(files), len(rest))
        for j, (const, rel, tfile, data) in enumerate(files):
            r = ref_render(data.decode("utf-8"), n, pk)
            if re.search(r"\{(name_[a-z_]*|pubkey)\}", r):
                return "a placeholder is left in the rendered %s" % rel
            if [len(r), poly_hash(r)] != rest[2 * j:2 * j + 2]:
                return "rendered %s differs from the documented substitution" % rel
    return None


def name_nontrivial(ints, obs):
    pk, raw = decode_name_case(ints)
    return bool(obs) and (obs[0] == 0 or obs[0] in (3, 4, 5, 6) or ref_trim(raw) != raw)


# ------------------------------------------------------------------------------------------------
# scaffold (fault) cases
#   dict(pre=0..7, cleanup_ok=bool, faults=[(cls 0..3, k, errno)], raw=str)
def scaffold_case_ints(case, pk="", kj=""):
    ints = [case["pre"], 1 if case["cleanup_ok"] else 0, len(case["faults"])]
    for c, k, e in case["faults"]:
        ints += [c, k, e]
    return ints + lp(case["raw"]) + lp(pk) + lp(kj)


def make_initial(d, pre, target):
    """mirror of Scaffold.initial_fs"""
    with open(os.path.join(d, "keep.txt"), "w") as f:
        f.write("k")
    os.mkdir(os.path.join(d, "elsewhere"))
    t = os.path.join(d, target)
    if pre == 1:
        with open(t, "w") as f:
            f.write("x")
    elif pre == 2:
        os.mkdir(t)
    elif pre == 3:
        os.mkdir(t)
        with open(os.path.join(t, "inner"), "w") as f:
            f.write("i")
    elif pre == 4:
        os.symlink("keep.txt", t)
    elif pre == 5:
        os.symlink("nowhere", t)
    elif pre == 6:
        os.symlink("elsewhere", t)
    elif pre == 7:
        os.symlink(target, t)


def scan_tree(d):
    """path tuple -> ('d',) | ('f', bytes) | ('l', tuple target components); symlinks not followed"""
    out = {(): ("d",)}

    def walk(p, rel):
        with os.scandir(p) as it:
            for e in sorted(it, key=lambda x: x.name):
                r = rel + (e.name,)
                if e.is_symlink():
                    out[r] = ("l", tuple(os.readlink(e.path).split("/")))
                elif e.is_dir(follow_symlinks=False):
                    out[r] = ("d",)
                    walk(e.path, r)
                else:
                    with open(e.path, "rb") as f:
                        out[r] = ("f", f.read())
    walk(d, ())
    return out


STAGING_RE = re.compile(r"^(\..*\.sf-new-)(\d+)-(\d+)$")


def normalise_staging(tree, order):
    """leftover staging directories are renamed to the model's fake tags: attempt i -> 'P-' + 'T'*(i+1)"""
    out = {}
    for p, v in tree.items():
        if p and STAGING_RE.match(p[0]):
            m = STAGING_RE.match(p[0])
            idx = order.index(p[0]) if p[0] in order else 0
            p = (m.group(1) + "P-" + "T" * (idx + 1),) + p[1:]
        out[p] = v
    return out


def decode_model_tree(obs):
    """model observation -> (stage, tree dict)"""
    stage = obs[0]
    i = 1
    tree = {}

    def rd_path(i):
        n = obs[i]
        i += 1
        comps = []
        for _ in range(n):
            s, i = unlp(obs, i)
            comps.append(s)
        return tuple(comps), i
    while i < len(obs):
        kind = obs[i]
        p, i = rd_path(i + 1)
        if kind == 0:
            tree[p] = ("d",)
        elif kind == 1:
            n = obs[i]
            tree[p] = ("f", bytes(obs[i + 1:i + 1 + n]))
            i += 1 + n
        else:
            t, i = rd_path(i)
            tree[p] = ("l", t)
    return stage, tree


def stage_of(rc, stderr):
    if rc == 0:
        return 0
    for code, text in STAGES:
        if text in stderr.split("\n\n")[0]:
            return code
    return 100 + rc


TRACE_SET = "mkdir,mkdirat,open,openat,creat,write,rename,renameat,renameat2,unlink,unlinkat,rmdir"


def parse_trace(text):
    """per class, the list of (line, path, injected) of the calls in process order"""
    calls = {c: [] for c in CLS + ["unlinkat"]}
    for line in text.split("\n"):
        m = re.match(r"^(\w+)\((.*)$", line)
        if not m:
            continue
        name = m.group(1)
        if name in calls:
            calls[name].append((line, "(INJECTED)" in line))
    return calls


def run_sf(sf, case, workroot, offsets, keep=False):
    """one run of the real binary under strace; returns an observation dict"""
    d = tempfile.mkdtemp(prefix="run", dir=workroot)
    target = ref_trim(case["raw"])
    try:
        make_initial(d, case["pre"], target)
        before = scan_tree(d)
        trace = d + ".trace"
        cmd = ["strace", "-y", "-o", trace, "-e", "trace=" + TRACE_SET]
        for c in range(4):
            fl = sorted((k, e) for c2, k, e in case["faults"] if c2 == c)
            if not fl:
                continue
            ks = [k for k, _ in fl]
            if ks != list(range(ks[0], ks[0] + len(ks))) or len({e for _, e in fl}) != 1:
                raise C.CheckError("faults of one class must be a contiguous range with one errno: %r" % (case["faults"],))
            first = offsets[CLS[c]] + ks[0] + 1
            cmd += ["-e", "inject=%s:error=%s:when=%d..%d" % (CLS[c], ERRNAME.get(fl[0][1], str(fl[0][1])), first, first + len(ks) - 1)]
        if not case["cleanup_ok"]:
            cmd += ["-e", "inject=unlinkat:error=EIO:when=1+"]
        cmd += [sf, "new", case["raw"]]
        p = subprocess.run(cmd, cwd=d, stdout=subprocess.PIPE, stderr=subprocess.PIPE, timeout=120,
                           env=dict(os.environ, NO_COLOR="1"))
        ttext = open(trace, errors="replace").read() if os.path.exists(trace) else ""
        calls = parse_trace(ttext)
        stderr = p.stderr.decode("utf-8", "replace")
        after = scan_tree(d)
        order = []
        for line, _ in calls["mkdir"]:
            m = re.search(r'mkdir\("\./(\.[^"/]*\.sf-new-\d+-\d+)"', line)
            if m and m.group(1) not in order:
                order.append(m.group(1))
        injected = [ln for c in CLS for ln, inj in calls[c] if inj]
        # create_dir_all may climb to `.` after an injected ENOENT: that mkdir(".") belongs to the sequence too
        wrong = [ln for ln in injected if ".sf-new-" not in ln and not ln.startswith('mkdir(".",')]
        obs = {
            "rc": p.returncode, "stage": stage_of(p.returncode, stderr), "stderr": stderr.strip().split("\n")[0][:200],
            "before": before, "tree": normalise_staging(after, order), "injected": injected,
            "injected_outside_scaffold": wrong, "pk": "", "kj": "",
            "cleanup_injected": any(inj for _, inj in calls["unlinkat"]),
        }
        # the fresh keypair is an input of the model: read it back from whatever the run left (project or staging)
        for pth, v in sorted(after.items()):
            if v[0] == "f" and pth[-2:] == ("src", "lib.rs") and len(pth) == 3 and not obs["pk"]:
                m = re.search(r'^\s*id = "([^"]*)"', v[1].decode("utf-8", "replace"), re.M)
                obs["pk"] = m.group(1) if m else ""
            if v[0] == "f" and len(pth) == 4 and pth[1:3] == ("target", "deploy") and pth[-1].endswith("-keypair.json"):
                obs["kj"] = v[1].decode("latin-1")
                if v[1]:
                    rc, out = C.sh([os.path.join(CLI_TARGET, "debug", "vh_c20"), os.path.join(d, *pth), "pubkey"])
                    obs["pk_of_keypair_file"] = out.strip()
        return obs
    finally:
        if not keep:
            shutil.rmtree(d, ignore_errors=True)
            try:
                os.unlink(d + ".trace")
            except OSError:
                pass


def calibrate(sf, workroot):
    """a clean traced run: how many calls of each class precede the scaffold's own (strace counts from exec), and how
    many calls of each class the scaffolding sequence makes"""
    d = tempfile.mkdtemp(prefix="cal", dir=workroot)
    trace = d + ".trace"
    subprocess.run(["strace", "-y", "-o", trace, "-e", "trace=" + TRACE_SET, sf, "new", "ab-c"], cwd=d,
                   stdout=subprocess.PIPE, stderr=subprocess.PIPE, timeout=120, check=True)
    calls = parse_trace(open(trace, errors="replace").read())
    offsets, counts = {}, {}
    for c in CLS:
        idx = [i for i, (ln, _) in enumerate(calls[c]) if ".sf-new-" in ln]
        if not idx:
            raise C.CheckError("calibration: the real binary makes no %s call on the staging directory "
                               "(system-call classes changed?)\n%s" % (c, "\n".join(ln for ln, _ in calls[c])[:800]))
        offsets[c] = idx[0]
        counts[c] = len(idx)
        if idx != list(range(idx[0], idx[0] + len(idx))):
            raise C.CheckError("calibration: %s calls on the staging directory are not contiguous" % c)
    shutil.rmtree(d, ignore_errors=True)
    os.unlink(trace)
    return offsets, counts


def gen_scaffold_cases(rng, tier, counts):
    cases = []

    def add(pre=0, faults=(), raw="ab-c", cleanup_ok=True):
        cases.append({"pre": pre, "cleanup_ok": cleanup_ok, "faults": [tuple(f) for f in faults], "raw": raw})

    names = ["ab-c", "x9_y", "q", " trimmed-name2\t"]
    for n in names:
        add(raw=n)
    for pre in range(1, 8):
        add(pre=pre)
        add(pre=pre, faults=[(0, 0, ERRNO["EIO"])])
    # every index of every class, EIO
    for c, cname in enumerate(CLS):
        for k in range(counts[cname]):
            add(faults=[(c, k, ERRNO["EIO"])])
            if tier == "thorough" or k % 3 == 0:
                add(faults=[(c, k, ERRNO["EIO"])], raw="x9_y")
    for k in range(counts["mkdir"]):
        add(faults=[(0, k, ERRNO["EEXIST"])])
        add(faults=[(0, k, ERRNO["ENOENT"])])
        add(faults=[(0, k, ERRNO["EACCES"])])
    for k in range(counts["openat"]):
        add(faults=[(1, k, ERRNO["ENOENT"] if k % 2 else ERRNO["EACCES"])])
    for k in range(counts["write"]):
        add(faults=[(2, k, ERRNO["ENOSPC"])])
    add(faults=[(3, 0, ERRNO["EXDEV"])])
    add(faults=[(3, 0, ERRNO["EACCES"])])
    # dangling / looping symlink at the target: the sequence runs and the final rename fails by itself
    for pre in (5, 7):
        for c, k in ((0, 1), (0, 5), (1, 3), (2, 7), (3, 0)):
            add(pre=pre, faults=[(c, k, ERRNO["EIO"])])
    # several failures in one run (covered by the general theorem).  strace keeps one injection expression per system
    # call, so the failures of one class are a contiguous index range with one errno (when=a..b)
    add(faults=[(0, 0, ERRNO["EEXIST"]), (0, 1, ERRNO["EEXIST"]), (2, 3, ERRNO["EIO"])])
    add(faults=[(0, 0, ERRNO["EEXIST"]), (0, 1, ERRNO["EEXIST"]), (0, 2, ERRNO["EEXIST"])])
    add(faults=[(0, 2, ERRNO["ENOENT"]), (0, 3, ERRNO["ENOENT"]), (1, 4, ERRNO["EIO"])])
    add(faults=[(0, 2, ERRNO["ENOENT"]), (0, 3, ERRNO["ENOENT"]), (0, 4, ERRNO["ENOENT"])])
    add(faults=[(0, 1, ERRNO["ENOENT"]), (0, 2, ERRNO["ENOENT"])])
    add(faults=[(0, 8, ERRNO["EIO"]), (3, 0, ERRNO["EIO"])])
    add(faults=[(0, 5, ERRNO["ENOENT"]), (2, 11, ERRNO["ENOSPC"])])
    add(faults=[(0, 3, ERRNO["ENOENT"]), (1, 11, ERRNO["EACCES"])], raw="x9_y")
    # failing cleanup (outside the property's fault model; the model's cleanup_ok = false)
    add(faults=[(0, 2, ERRNO["EIO"])], cleanup_ok=False)
    add(faults=[(2, 5, ERRNO["EIO"])], cleanup_ok=False)
    add(faults=[(3, 0, ERRNO["EIO"])], cleanup_ok=False)
    add(cleanup_ok=False)
    n_rand = 20 if tier == "quick" else 400
    for _ in range(n_rand):
        c = rng.below(4)
        k = rng.below(counts[CLS[c]])
        e = rng.choice([ERRNO["EIO"], ERRNO["ENOSPC"], ERRNO["EACCES"], ERRNO["EEXIST"], ERRNO["ENOENT"], ERRNO["EROFS"]])
        nm = "".join(chr(rng.choice(NEAR[:26])) for _ in range(rng.range(1, 5))) + rng.choice(["", "-x", "_9", "2"])
        if not ref_accepts(nm):
            nm = "ok-" + nm + "z"
        add(pre=rng.choice([0, 0, 0, 5]), faults=[(c, k, e)], raw=nm)
    out = []
    seen = set()
    for cs in cases:
        key = json.dumps(cs, sort_keys=True)
        if key not in seen:
            seen.add(key)
            out.append(("s%d" % len(out), cs))
    return out


def expected_project(name, pk):
    """the complete project according to the property text and the file / directory tables of the source"""
    s = src()
    tree = {(): ("d",)}

    def adddirs(p):
        for i in range(1, len(p) + 1):
            tree[tuple(p[:i])] = ("d",)
    for d in s["dirs"]:
        adddirs(d)
    for const, rel, tfile, data in s["files"]:
        comps = rel.split("/")
        adddirs(comps[:-1])
        tree[tuple(comps)] = ("f", ref_render(data.decode("utf-8"), name, pk).encode("utf-8"))
    adddirs(s["keypair_dir"])
    tree[tuple(s["keypair_dir"]) + (name.replace("-", "_") + s["keypair_suffix"],)] = ("f", None)
    return tree


def tree_predicate(case, obs):
    """the property judged directly on the real directory tree.  returns list of (tag, text)"""
    bad = []
    target = ref_trim(case["raw"])
    before, after = obs["before"], obs["tree"]
    if obs["injected_outside_scaffold"]:
        return [("machinery", "an injection hit a system call outside the scaffolding sequence: %s" % obs["injected_outside_scaffold"][:2])]
    sub_before = {p: v for p, v in before.items() if p[:1] == (target,)}
    sub_after = {p: v for p, v in after.items() if p[:1] == (target,)}
    out_before = {p: v for p, v in before.items() if p[:1] != (target,)}
    out_after = {p: v for p, v in after.items() if p[:1] != (target,)}
    staging_left = sorted(p for p in out_after if p and STAGING_RE.match(p[0]) or (p and ".sf-new-" in p[0]))
    out_after_ns = {p: v for p, v in out_after.items() if not (p and ".sf-new-" in p[0])}
    if out_after_ns != out_before:
        bad.append(("outside", "entries outside the target changed: %s" % sorted(set(out_after_ns.items()) ^ set(out_before.items()))[:3]))
    if staging_left and case["cleanup_ok"]:
        bad.append(("staging", "a staging directory is left behind: %s" % ["/".join(p) for p in staging_left[:3]]))
    if sub_before:
        if sub_after != sub_before:
            bad.append(("existing", "the pre-existing target was modified"))
        if obs["rc"] == 0:
            bad.append(("existing", "exit status 0 although the target path existed"))
        return bad
    if not ref_accepts(case["raw"]):
        if sub_after or obs["rc"] == 0:
            bad.append(("name", "a project was created for a name outside the documented subset"))
        return bad
    if not sub_after:
        if obs["rc"] == 0:
            bad.append(("atomic", "exit status 0 but the target is absent"))
        return bad
    # a target now exists: it must be the complete project
    if obs["rc"] != 0:
        bad.append(("atomic", "exit status %d but a target directory exists" % obs["rc"]))
    rel_after = {p[1:]: v for p, v in sub_after.items()}
    pk = obs.get("pk", "")
    exp = expected_project(target, pk)
    if set(rel_after) != set(exp):
        bad.append(("atomic", "incomplete / different project: missing %s extra %s" % (
            sorted("/".join(p) for p in set(exp) - set(rel_after))[:4], sorted("/".join(p) for p in set(rel_after) - set(exp))[:4])))
        return bad
    for p, v in exp.items():
        got = rel_after[p]
        if v[0] != got[0]:
            bad.append(("atomic", "%s has the wrong kind" % "/".join(p)))
        elif v[0] == "f":
            text = got[1].decode("utf-8", "replace")
            if re.search(r"\{(name_[a-z_]*|pubkey)\}", text):
                bad.append(("placeholder", "a placeholder is left in %s" % "/".join(p)))
            if v[1] is not None and got[1] != v[1]:
                bad.append(("render", "%s differs from the template with the documented substitution" % "/".join(p)))
    if not re.match(r"^[1-9A-HJ-NP-Za-km-z]{32,44}$", pk or ""):
        bad.append(("pubkey", "src/lib.rs declares no base58 program id (%r)" % pk))
    elif obs.get("pk_of_keypair_file") != pk:
        bad.append(("pubkey", "declared program id %s is not the public key of the keypair file (%s)" % (pk, obs.get("pk_of_keypair_file"))))
    bad += names_consistent_on_tree(target, rel_after)
    return bad


def names_consistent_on_tree(name, rel):
    """the manifests and sources of the REAL tree name the same artefacts"""
    bad = []

    def text(*p):
        return rel[tuple(p)][1].decode("utf-8", "replace")
    import tomllib
    try:
        cargo = tomllib.loads(text("Cargo.toml"))
    except Exception as e:  # noqa: BLE001
        return [("names", "Cargo.toml does not parse: %s" % e)]
    pkg = cargo.get("package", {}).get("name")
    libname = cargo.get("lib", {}).get("name")
    if pkg != name:
        bad.append(("names", "Cargo.toml package name %r is not the project name %r" % (pkg, name)))
    # cargo names a cdylib artefact after the [lib] name; cargo build-sbf copies <lib>.so and writes <lib>-keypair.json
    if libname != name.replace("-", "_"):
        bad.append(("names", "Cargo.toml [lib] name %r is not the project name with '-' read as '_'" % libname))
    kps = [p[-1] for p in rel if p[:2] == ("target", "deploy") and len(p) == 3]
    if kps != ["%s-keypair.json" % libname]:
        bad.append(("names", "keypair file %s is not <lib name>-keypair.json (%s)" % (kps, libname)))
    test = text("src", "tests", "counter.rs")
    so = re.findall(r'"([^"/]*)\.so"', test)
    if not so or any(s != libname for s in so):
        bad.append(("binary-name", "src/tests/counter.rs loads %s but cargo build-sbf produces target/deploy/%s.so "
                    "([lib] name = %r)" % (["%s.so" % s for s in so], libname, libname)))
    mo = re.findall(r'Mollusk::new\([^,]*,\s*"([^"]*)"\)', test)
    if not mo or any(s != libname for s in mo):
        bad.append(("binary-name", "src/tests/counter.rs gives Mollusk the program name %s but the built program is %r" % (mo, libname)))
    pas = ref_pascal(name)
    lib = text("src", "lib.rs")
    for needle in ("pub struct %sProgram;" % pas, "instruction_set = %sInstructionSet," % pas,
                   "pub enum %sInstructionSet {" % pas, "pub enum %sError {" % pas):
        if needle not in lib:
            bad.append(("names", "src/lib.rs lacks %r" % needle))
    used = set(re.findall(r"\b(\w+)Program::", test)) - {"StarFrameDeclared"}
    if used != {pas}:
        bad.append(("names", "src/tests/counter.rs refers to %s, src/lib.rs declares %sProgram" % (sorted(used), pas)))
    st = text("src", "states.rs")
    errs = set(re.findall(r"\b(\w+)Error\b", st))
    if errs != {pas}:
        bad.append(("names", "src/states.rs refers to %s, src/lib.rs declares %sError" % (sorted(e + "Error" for e in errs), pas)))
    return bad


def describe_scaffold(case):
    pres = ["absent", "file", "empty dir", "non-empty dir", "symlink to file", "dangling symlink", "symlink to dir",
            "symlink to itself"]
    return {"name": case["raw"], "target_before": pres[case["pre"]], "cleanup_ok": case["cleanup_ok"],
            "faults": ["%s #%d -> %s" % (CLS[c], k, ERRNAME.get(e, e)) for c, k, e in case["faults"]]}


def tree_summary(tree):
    out = []
    for p in sorted(tree):
        v = tree[p]
        if v[0] == "f":
            import hashlib
            out.append("%s f %d %s" % ("/".join(p) or ".", len(v[1]), hashlib.sha256(v[1]).hexdigest()[:12]))
        elif v[0] == "l":
            out.append("%s l -> %s" % ("/".join(p), "/".join(v[1])))
        else:
            out.append("%s d" % ("/".join(p) or "."))
    return out


# ------------------------------------------------------------------------------------------------
def build_cli():
    """vh_c20 (includes the real source) and the real sf binary, both against C.REPO's working tree"""
    lock_src = os.path.join(C.REPO, "Cargo.lock")
    lock_dst = os.path.join(CLI_CRATE, "Cargo.lock")
    if not os.path.exists(lock_dst):
        shutil.copy(lock_src, lock_dst)
    rc, out = C.sh(["cargo", "build", "--offline"], cwd=CLI_CRATE, timeout=2400, env={"VERIF_REPO": C.REPO})
    if rc != 0:
        return None, None, "vh_c20 build failed:\n" + out[-3000:]
    # cargo fingerprints workspace members by their path relative to the workspace root, so two checkouts must never
    # share a target directory: one directory per repository path
    import hashlib
    sfdir = "sf" if os.path.realpath(C.REPO) == "/repo" else "sf-" + hashlib.sha256(os.path.realpath(C.REPO).encode()).hexdigest()[:10]
    rc, out2 = C.sh(["cargo", "build", "--offline", "-p", "star_frame_cli", "--target-dir", os.path.join(CLI_TARGET, sfdir)],
                    cwd=C.REPO, timeout=2400)
    if rc != 0:
        return None, None, "real sf build failed:\n" + out2[-3000:]
    return os.path.join(CLI_TARGET, "debug", "vh_c20"), os.path.join(CLI_TARGET, sfdir, "debug", "sf"), out + out2


def run_names(exe, cases, tag):
    s = src()
    tdir = os.path.join(C.REPO, "star_frame_cli", "src")
    targs = ["names", tdir] + [tfile for _, _, tfile, _ in s["files"]]
    shards = C.split_shards(cases, C.NPROC)

    def one(i, shard):
        path = os.path.join(C.WORK, "C20_%s_%d.cases" % (tag, i))
        C.write_cases(path, shard)
        a = C.run_harness(exe, path, args=targs)
        b = C.run_model(GROUP, "c20n", path)
        return {"impl:" + k: v for k, v in a.items()} | {"model:" + k: v for k, v in b.items()}
    res = C.run_parallel(one, shards)
    return ({k[5:]: v for k, v in res.items() if k.startswith("impl:")},
            {k[6:]: v for k, v in res.items() if k.startswith("model:")})


def run_sf_names(sf, raws, workroot):
    """real binary, no tracing: (exit status, created directory names) per raw name"""
    def one(i, shard):
        out = {}
        for j, raw in shard:
            d = tempfile.mkdtemp(prefix="nm", dir=workroot)
            try:
                p = subprocess.run([sf, "new", raw], cwd=d, stdout=subprocess.PIPE, stderr=subprocess.PIPE, timeout=60)
                out[j] = (p.returncode, sorted(os.listdir(d)), stage_of(p.returncode, p.stderr.decode("utf-8", "replace")))
            finally:
                shutil.rmtree(d, ignore_errors=True)
        return out
    return C.run_parallel(one, C.split_shards(list(enumerate(raws)), C.NPROC))


def run_scaffold(sf, cases, workroot, offsets):
    def one(i, shard):
        return {cid: run_sf(sf, cs, workroot, offsets) for cid, cs in shard}
    obs = C.run_parallel(one, C.split_shards(cases, C.NPROC))
    path = os.path.join(C.WORK, "C20_scaffold.cases")
    C.write_cases(path, [(cid, scaffold_case_ints(cs, obs[cid]["pk"], obs[cid]["kj"])) for cid, cs in cases])
    model = C.run_model(GROUP, "c20s", path)
    return obs, {k: decode_model_tree(v) for k, v in model.items()}


def custom_main(args, tier, seed):
    prop = ID
    timer = C.Timer()
    broken = []
    thms = []
    workroot = tempfile.mkdtemp(prefix="c20-")
    try:
        return _main(args, tier, seed, prop, timer, broken, thms, workroot)
    finally:
        shutil.rmtree(workroot, ignore_errors=True)


def _main(args, tier, seed, prop, timer, broken, thms, workroot):
    # ---- 1. proofs ----
    err = C.gen_constants(prop)
    if err:
        broken.append(("translator tools/gen_extra_c20.py", err))
    ok, out = C.coq_make(["Extraction/Extract_%s.vo" % GROUP])
    model_ok = ok
    if not ok:
        broken.append(("model build (coq/Extraction/Extract_%s.vo)" % GROUP, out[-3000:]))
    ok, out = C.coq_make(list(COQ_TARGETS))
    if not ok:
        m = re.findall(r'File "\./([^"]+)", line (\d+)', out)
        where = ", ".join("%s:%s" % x for x in m[-2:]) or "?"
        broken.append(("proof obligation (%s) in %s" % (" ".join(COQ_TARGETS), where), out[-3000:]))
    else:
        thms, perr = C.check_pins(prop)
        if perr:
            broken.append(("pinned theorem statements / assumptions coq/Pins/%s.v" % prop, perr))
    bad = C.forbidden_scan()
    if bad:
        broken.append(("forbidden vernacular in the development", "\n".join(bad)))
    obligations = len(thms)
    C.log("%s proofs: %d theorems pinned, %s (%.1fs)" % (prop, obligations, "ok" if not broken else "BROKEN", timer.s()))

    # ---- 2. builds ----
    if model_ok:
        try:
            C.build_runner(GROUP)
        except Exception as e:  # noqa: BLE001
            model_ok = False
            broken.append(("model runner build", str(e)[-3000:]))
    exe, sf, blog = build_cli()
    if exe is None:
        broken.append(("correspondence harness / real sf build against %s" % C.REPO, blog[-4000:]))
    C.log("builds done (%.1fs)" % timer.s())

    # ---- replay mode ----
    if args.replay:
        payload = json.load(open(args.replay))
        kind = payload.get("kind_of_case")
        if kind == "name":
            cs = [("replay", payload["case"])]
            impl, model = run_names(exe, cs, "replay")
            print("case      :", decode_name_case(payload["case"]))
            print("impl  obs :", impl.get("replay"))
            print("model obs :", model.get("replay"))
            print("predicate :", name_predicate(payload["case"], impl.get("replay")))
        elif kind in ("scaffold", "sfnew"):
            cs = payload["case"]
            if kind == "sfnew":
                cs = {"pre": 0, "cleanup_ok": True, "faults": [], "raw": payload["case"]["raw"]}
            offsets, counts = calibrate(sf, workroot)
            obs, model = run_scaffold(sf, [("replay", cs)], workroot, offsets)
            o = obs["replay"]
            print("case       :", describe_scaffold(cs))
            print("exit status:", o["rc"], "| stage", o["stage"], "|", o["stderr"])
            print("injected   :", o["injected"])
            print("real tree  :")
            for ln in tree_summary(o["tree"]):
                print("   ", ln)
            print("model stage:", model["replay"][0])
            print("model tree == real tree :", model["replay"][1] == o["tree"])
            print("predicate  :", tree_predicate(cs, o))
        else:
            print(json.dumps(payload, indent=1))
        return 0

    rng = C.Rng(seed)
    violations = []
    known = [k for k in C.load_known(prop) if k.get("status") == "known"]
    known_hits = {}
    evaluations = 0
    nontrivial = set()
    disagreements = 0
    direct_failures = 0
    samples = []
    dist = {}
    can_run = exe is not None and model_ok

    def known_for(tag):
        for k in known:
            if tag in k.get("tags", []):
                return k
        return None

    new_fail = []       # (size, kind, case, why, impl obs, model obs)
    unexplained = []    # (kind, case, impl, model)

    if can_run:
        # ---- 3a. names through the real validator ----
        ncases = gen_name_cases(rng, tier)
        impl, model = run_names(exe, ncases, tier)
        verdicts = {}
        for cid, ints in ncases:
            a, b = impl.get(cid), model.get(cid)
            evaluations += 1
            if a != b:
                disagreements += 1
                unexplained.append(("name", ints, a, b))
            why = name_predicate(ints, a)
            if why:
                direct_failures += 1
                new_fail.append((len(ints), "name", ints, why, a, b))
            if name_nontrivial(ints, a):
                nontrivial.add(("n",) + tuple(ints))
            key = "accepted" if a and a[0] == 0 else "rejected reason %s" % (a[0] if a else "?")
            verdicts[key] = verdicts.get(key, 0) + 1
        dist["name_verdicts"] = verdicts
        samples += [{"kind": "name", "case": decode_name_case(ints), "impl_observation": impl.get(cid),
                     "model_observation": model.get(cid)} for cid, ints in (ncases[4000:4001] + ncases[-1:])]
        C.log("%d names through the real validator and the model: %d disagreements, %d property failures (%.1fs)" % (
            len(ncases), disagreements, direct_failures, timer.s()))

        # ---- 3b. a sample through the real `sf new` binary ----
        pool = [decode_name_case(i)[1] for _, i in ncases]
        usable = [r for r in pool if r and "\x00" not in r and not r.startswith("-") and "/" not in ref_trim(r)
                  and ref_trim(r) not in (".", "..")]
        acc = [r for r in usable if ref_accepts(r)]
        rej = [r for r in usable if not ref_accepts(r)]
        n_each = 60 if tier == "quick" else 1500
        sample = [rng.choice(acc) for _ in range(n_each)] + [rng.choice(rej) for _ in range(n_each)] + \
                 ["fn", "self", " ab-c ", "a--b", "try", "r-try", "　x9 ", "a​", "Counter", "a_"]
        sample = sorted(set(sample))
        res = run_sf_names(sf, sample, workroot)
        mres = C.run_model(GROUP, "c20n", _write(os.path.join(C.WORK, "C20_sfnew.cases"),
                                                 [("b%d" % j, name_case(r)) for j, r in enumerate(sample)]))
        binv = {"created": 0, "refused": 0}
        for j, raw in enumerate(sample):
            rc, listing, stage = res[j]
            evaluations += 1
            want = ref_accepts(raw)
            mv = mres.get("b%d" % j, [None])[0] == 0
            created = listing == [ref_trim(raw)] and rc == 0
            refused = listing == [] and rc != 0
            binv["created" if created else "refused"] += 1
            nontrivial.add(("b", raw))
            if mv != created or not (created or refused):
                disagreements += 1
                unexplained.append(("sfnew", {"raw": raw}, [rc, listing, stage], ["accept" if mv else "reject"]))
            if (want and not created) or (not want and not refused):
                direct_failures += 1
                new_fail.append((len(raw), "sfnew", {"raw": raw},
                                 "`sf new %r`: exit %s, directory listing %s, but the name is %s the documented subset" % (
                                     raw, rc, listing, "inside" if want else "outside"), [rc, listing, stage], None))
        dist["sf_new_binary"] = binv
        C.log("%d names through the real `sf new` binary (%.1fs)" % (len(sample), timer.s()))

        # ---- 4. fault injection on the real binary ----
        try:
            offsets, counts = calibrate(sf, workroot)
        except Exception as e:  # noqa: BLE001
            offsets = None
            broken.append(("strace calibration of the real sf binary", str(e)[-2000:]))
        if offsets is not None:
            scases = gen_scaffold_cases(rng, tier, counts)
            obs, model = run_scaffold(sf, scases, workroot, offsets)
            outcomes = {}
            for cid, cs in scases:
                o = obs[cid]
                evaluations += 1
                mstage, mtree = model.get(cid, (None, None))
                if mstage != o["stage"] or mtree != o["tree"]:
                    disagreements += 1
                    unexplained.append(("scaffold", cs, {"stage": o["stage"], "tree": tree_summary(o["tree"]), "stderr": o["stderr"]},
                                        {"stage": mstage, "tree": tree_summary(mtree) if mtree is not None else None}))
                fails = tree_predicate(cs, o)
                for tag, why in fails:
                    k = known_for(tag)
                    if k:
                        known_hits.setdefault(k["id"], k)
                    else:
                        direct_failures += 1
                        new_fail.append((len(cs["raw"]) + 10 * len(cs["faults"]) + 5 * cs["pre"], "scaffold", cs, why,
                                         {"stage": o["stage"], "stderr": o["stderr"], "tree": tree_summary(o["tree"]),
                                          "injected": o["injected"]},
                                         {"stage": mstage, "tree": tree_summary(mtree) if mtree is not None else None}))
                if o["injected"] or cs["pre"]:
                    nontrivial.add(("s", json.dumps(cs, sort_keys=True)))
                key = "stage %d%s" % (o["stage"], "" if cs["cleanup_ok"] else " (cleanup failing)")
                outcomes[key] = outcomes.get(key, 0) + 1
            dist["scaffold_outcomes"] = outcomes
            dist["syscalls_per_class"] = counts
            dist["strace_offsets"] = offsets
            for cid, cs in scases[:1] + scases[20:21] + scases[-1:]:
                samples.append({"kind": "scaffold", "case": describe_scaffold(cs), "exit": obs[cid]["rc"],
                                "stage": obs[cid]["stage"], "injected": obs[cid]["injected"][:2],
                                "real_tree": tree_summary(obs[cid]["tree"])[:40], "model_stage": model[cid][0],
                                "model_tree_equal": model[cid][1] == obs[cid]["tree"]})
            C.log("%d fault-injection runs of the real binary: syscalls per class %s (%.1fs)" % (len(scases), counts, timer.s()))

    # ---- 5. verdict ----
    if new_fail:
        new_fail.sort(key=lambda x: x[0])
        _, kind, cs, why, a, b = new_fail[0]
        payload = {
            "property": prop, "kind": "failing-input", "kind_of_case": kind, "case": cs,
            "case_decoded": (dict(zip(("pubkey", "raw_name"), decode_name_case(cs))) if kind == "name" else
                             describe_scaffold(cs) if kind == "scaffold" else cs),
            "why": why, "impl_observation": a, "model_observation": b,
            "replay_cmd": "bin/check %s --replay <this file>" % prop,
            "replay_by_hand": ("cd $(mktemp -d) && %s new %s && ls -R" % (sf, json.dumps(cs["raw"]))) if kind != "name" else None,
            "also_failing": [json.dumps(x[2])[:120] for x in new_fail[1:12]],
            "no_longer_checks": [b_[0] for b_ in broken],
        }
        rp = C.write_replay(prop, payload)
        violations.append("VIOLATION property=%s replay=%s" % (prop, os.path.relpath(rp, C.VERIF)))
    elif unexplained or broken:
        what = [b_[0] for b_ in broken]
        if unexplained:
            what.append("correspondence model (coq/Cli) vs implementation: %d cases differ" % len(unexplained))
        payload = {"property": prop, "kind": "no-failing-input-found", "no_longer_checks": what,
                   "details": [{"what": b_[0], "log": b_[1]} for b_ in broken],
                   "searched": "%d evaluations judged by the property predicate on the implementation; none failed" % evaluations}
        if unexplained:
            kind, cs, a, b = unexplained[0]
            payload.update({"kind_of_case": kind, "case": cs, "impl_observation": a, "model_observation": b})
        rp = C.write_replay(prop, payload)
        violations.append("VIOLATION property=%s replay=%s no-failing-input-found" % (prop, os.path.relpath(rp, C.VERIF)))
    for kid, k in sorted(known_hits.items()):
        print("KNOWN-FINDING: property=%s %s" % (prop, k["what"]))

    ev = {
        "property_id": prop, "tier": tier, "seed": seed, "level": "proof",
        "coverage": {
            "obligations": max(obligations, 1),
            "discharged": obligations if not broken else 0,
            "checker_cmd": "make -C coq %s && coqc coq/Pins/%s.v (Check <thm> : <pinned statement>; Print Assumptions <thm>)" % (" ".join(COQ_TARGETS), prop),
            "trusted_base": list(TRUSTED),
            "theorems": thms,
            "evaluations": evaluations,
            "distinct_nontrivial": len(nontrivial),
            "rule": RULE,
            "samples": samples,
            "traces_validated_against_impl": evaluations - disagreements,
            "disagreements": disagreements,
            "direct_property_failures": direct_failures,
            "known_findings_reproduced": sorted(known_hits),
            "input_distribution": dist,
        },
        "assumptions": list(ASSUMPTIONS),
        "wall_s": timer.s(),
        "violations": len(violations),
    }
    C.write_evidence(prop, ev)
    for v in violations:
        print(v)
    C.log("%s %s: %s in %.1fs" % (prop, tier, "VIOLATION" if violations else "ok", timer.s()))
    return 1 if violations else 0


def _write(path, cases):
    C.write_cases(path, cases)
    return path
