"""C07 - account data can be re-borrowed within an instruction after any resize history."""
ID = "C07"
ENTRY = "c07"
GROUP = "acct"
BIN = "vh_c07"
COQ_TARGETS = ["Properties/C07.vo"]
MAX_INC = 10240
DISC = 8
E_BORROW = 12 << 32
E_REALLOC = 20 << 32
E_RANGE = 3001
E_INDEX = 3000

RULE = ("case = writable flag, 1-3 List<u8> fields with initial lengths (0 .. 40 KiB), then 5-60 steps of "
        "borrow_mut / release / borrow_shared / release_shared / push n / remove_range / read; generated "
        "mostly-valid (ops issued while the right borrow is live) with forced patterns: shrink by more than "
        "the growth allowance then grow back, growth to allowance-1/allowance/allowance+1, 8 shared borrows, "
        "overlapping requests. non-trivial = at least one successful resize and one re-borrow after it; "
        "distinct = distinct integer encodings")
TRUSTED = [
    "Coq 8.16.1 kernel; vm_compute in Examples only",
    "extraction (ExtrOcamlBasic only) + runner/driver.ml",
    "harness/src/bin/vh_c07.rs, harness/src/lib.rs (native pinocchio AccountInfo builder)",
    "tools/gen_constants.py (MAX_PERMITTED_DATA_INCREASE, error codes)",
    "pinocchio borrow-state bits abstracted as (mut flag, shared count): modelled, tied by correspondence",
]
ASSUMPTIONS = [
    "container byte-level behaviour (pointer shifting, canonical bytes) is C01/C02's model; here the wrapper's pointers are the layout offsets",
    "the heap address of the account data is >= the account size (usize/i64 conversions in data_mut never fail)",
    "account sizes < 2^31 (pinocchio's own assumption)",
]


def _ops_for(rng, k, lens, n_steps, writable, lw=4):
    """mostly-valid op stream; returns list of op tuples"""
    ops = []
    excl = False
    nsh = 0
    cur = list(lens)
    orig = DISC + sum(lw + x for x in lens)
    for _ in range(n_steps):
        total = DISC + sum(lw + x for x in cur)
        room = orig + MAX_INC - total
        r = rng.below(100)
        if excl:
            if r < 35:
                i = rng.below(k)
                mode = rng.below(10)
                if mode < 5:
                    n = rng.range(0, 300)
                elif mode < 7:
                    n = max(0, room - rng.range(0, 2))
                elif mode < 8:
                    n = room + rng.range(1, 3)
                else:
                    n = rng.range(0, max(0, room))
                ops.append((5, i, n, rng.range(0, 255)))
                if n <= room:
                    cur[i] += n
            elif r < 65:
                i = rng.below(k)
                mode = rng.below(10)
                if mode < 5 and cur[i] > 0:
                    a = rng.range(0, cur[i])
                    e = rng.range(a, cur[i])
                elif mode < 8:
                    a, e = 0, cur[i]
                elif mode < 9:
                    a, e = rng.range(0, cur[i] + 2), rng.range(0, cur[i] + 2)
                else:
                    a, e = 0, cur[i] + 1
                ops.append((6, i, a, e))
                if a <= e <= cur[i]:
                    cur[i] -= e - a
            elif r < 75:
                ops.append((7,))
            elif r < 93:
                ops.append((2,))
                excl = False
            elif r < 97:
                ops.append((1,))  # overlapping exclusive request
            else:
                ops.append((3,))  # shared while exclusive
        else:
            if r < 45:
                ops.append((1,))
                if nsh == 0 and writable:
                    excl = True
            elif r < 65:
                ops.append((3,))
                if nsh < 7:
                    nsh += 1
            elif r < 80:
                ops.append((4,))
                if nsh > 0:
                    nsh -= 1
            elif r < 92:
                ops.append((7,))
            else:
                ops.append((2,))
    if excl:
        ops.append((2,))
    return ops


def _encode(writable, lens, ops, prefixless=False):
    """prefixless: ONE field without a length prefix (struct K0 { rest: RemainingBytes }); encoded with k = 0"""
    ints = [1 if writable else 0, 0 if prefixless else len(lens)] + list(lens)
    for o in ops:
        ints.extend(o)
    return ints


def gen_cases(rng, tier):
    n = 1500 if tier == "quick" else 40000
    cases = []
    # forced patterns
    forced = []
    for big in (11000, 15000, 20000, 30000, 40000):
        for k in (1, 2, 3):
            lens = [big] + [rng.range(0, 5000) for _ in range(k - 1)]
            lens = rng.shuffle(lens)
            i = lens.index(big)
            shrink = rng.range(MAX_INC // 2 + 1, big)
            ops = [(1,), (6, i, 0, shrink), (7,), (2,), (1,), (7,), (5, i, shrink, 9), (7,), (2,), (3,), (7,), (4,),
                   (1,), (5, i, MAX_INC, 1), (5, i, 1, 1), (7,), (2,)]
            forced.append(_encode(True, lens, ops))
    # allowance boundary
    for d in (-1, 0, 1):
        forced.append(_encode(True, [0], [(1,), (5, 0, MAX_INC + d, 3), (7,), (2,), (1,), (7,), (2,)]))
    # 8 shared borrows, then exclusive refused, then released
    forced.append(_encode(True, [5, 6], [(3,)] * 8 + [(1,), (7,)] + [(4,)] * 8 + [(1,), (5, 1, 10, 2), (2,), (7,), (3,), (7,), (4,)]))
    forced.append(_encode(False, [5], [(1,), (3,), (7,), (4,)]))
    # a body that can be empty (the account then holds exactly its discriminant): shrink to nothing, release, re-borrow,
    # grow back; start empty; random histories
    for n0 in (0, 1, 5, 300):
        forced.append(_encode(True, [n0], [(1,), (6, 0, 0, n0), (7,), (2,), (1,), (7,), (5, 0, 7, 3), (7,), (2,), (3,), (7,), (4,),
                                           (1,), (6, 0, 0, 7), (2,), (1,), (5, 0, MAX_INC, 1), (5, 0, 1, 1), (7,), (2,)], True))
    for j in range(40 if tier == "quick" else 2000):
        n0 = rng.choice([0, 0, 1, rng.range(0, 64), rng.range(0, 20000)])
        ops = _ops_for(rng, 1, [n0], rng.range(5, 40), True, lw=0)
        forced.append(_encode(True, [n0], ops, True))
    for j, ints in enumerate(forced):
        cases.append(("f%d" % j, ints))
    for j in range(n):
        k = rng.range(1, 3)
        sizes = rng.weighted([("small", 5), ("mid", 3), ("big", 2)])
        hi = {"small": 64, "mid": 4000, "big": 40000}[sizes]
        lens = [rng.choice([0, rng.range(0, hi)]) if rng.chance(1, 5) else rng.range(0, hi) for _ in range(k)]
        writable = not rng.chance(1, 12)
        ops = _ops_for(rng, k, lens, rng.range(5, 60), writable)
        cases.append(("g%d" % j, _encode(writable, lens, ops)))
    return cases


def _lw(ints):
    return 0 if ints[1] == 0 else 4


def _decode(ints):
    w, k = ints[0], ints[1]
    if k == 0:
        k = 1               # one prefix-less field
    lens = ints[2:2 + k]
    ops = []
    r = ints[2 + k:]
    i = 0
    while i < len(r):
        c = r[i]
        if c in (1, 2, 3, 4, 7):
            ops.append((c,))
            i += 1
        elif c in (5, 6) and i + 3 < len(r) + 0:
            ops.append(tuple(r[i:i + 4]))
            i += 4
        else:
            break
    return w, lens, ops


NAMES = {1: "borrow_mut", 2: "release_mut", 3: "borrow_shared", 4: "release_shared", 5: "push(field,n,byte)",
         6: "remove_range(field,start,end)", 7: "read"}


def describe(ints):
    w, lens, ops = _decode(ints)
    return {"writable": bool(w), "initial_field_lengths": lens, "length_prefix_width": _lw(ints),
            "ops": [[NAMES[o[0]]] + list(o[1:]) for o in ops]}


def _split_obs(obs, nops):
    """observation stream -> per-op lists + trailer"""
    out = []
    i = 0
    for _ in range(nops):
        if i >= len(obs) - 2:
            break
        n = obs[i]
        out.append(obs[i + 1:i + 1 + n])
        i += 1 + n
    return out, obs[i:]


def _checksum(f):
    a = 7
    for b in f:
        a = (a * 31 + b) % 65521
    return a


def predicate(ints, obs):
    """The property, judged directly on the implementation's observations, against plain Vec's."""
    if obs is None:
        return "implementation produced no observation (crash?)"
    if obs and obs[0] == "UNPARSEABLE":
        return "unparseable implementation output"
    w, lens, ops = _decode(ints)
    lw = _lw(ints)
    per, trailer = _split_obs(obs, len(ops))
    fields = [[i + 1] * n for i, n in enumerate(lens)]
    orig = DISC + sum(lw + len(f) for f in fields)
    excl = False
    nsh = 0
    for idx, o in enumerate(ops):
        if idx >= len(per):
            return "observation stream ended early at step %d" % idx
        ob = per[idx]
        if ob == [2]:
            return "step %d (%s): panic" % (idx, NAMES[o[0]])
        total = DISC + sum(lw + len(f) for f in fields)
        if o[0] == 1:
            free = (not excl) and nsh == 0
            if w and free and ob != [0]:
                return "step %d: exclusive borrow of an unborrowed writable account refused: %s" % (idx, ob)
            if (not free or not w) and ob[:1] == [0]:
                return "step %d: overlapping / read-only exclusive borrow was granted" % idx
            if ob == [0]:
                excl = True
        elif o[0] == 2:
            if excl:
                if ob != [0]:
                    return "step %d: release failed %s" % (idx, ob)
                excl = False
        elif o[0] == 3:
            if excl and ob[:1] == [0]:
                return "step %d: shared borrow granted during an exclusive borrow" % idx
            if not excl and nsh < 7 and ob != [0]:
                return "step %d: shared borrow refused: %s" % (idx, ob)
            if ob == [0]:
                nsh += 1
        elif o[0] == 4:
            if nsh > 0:
                nsh -= 1
        elif o[0] == 5 and excl:
            _, i, n, b = o
            if n < 0:
                continue
            if total + n <= orig + MAX_INC:
                if ob != [0]:
                    return "step %d: growth within the allowance failed: %s" % (idx, ob)
                fields[i] = fields[i] + [b] * n
            else:
                if ob[:1] != [1]:
                    return "step %d: growth beyond the allowance not reported as an error: %s" % (idx, ob)
        elif o[0] == 6 and excl:
            _, i, a, e = o
            if a < 0 or e < 0:
                continue
            if a <= e <= len(fields[i]):
                if ob != [0]:
                    return "step %d: valid remove_range failed: %s" % (idx, ob)
                fields[i] = fields[i][:a] + fields[i][e:]
            elif ob[:1] != [1]:
                return "step %d: invalid remove_range not an error: %s" % (idx, ob)
        elif o[0] == 7 and (excl or nsh > 0):
            exp = [0, DISC + sum(lw + len(f) for f in fields)]
            for f in fields:
                exp += [len(f), _checksum(f)]
            if ob != exp:
                return "step %d: read does not observe the current value: got %s expected %s" % (idx, ob, exp)
    return None


def nontrivial(ints, obs):
    w, lens, ops = _decode(ints)
    per, _ = _split_obs(obs, len(ops))
    resized = False
    for o, ob in zip(ops, per):
        if o[0] in (5, 6) and ob == [0] and ((o[0] == 5 and o[2] > 0) or (o[0] == 6 and o[3] > o[2])):
            resized = True
        if resized and o[0] in (1, 3) and ob == [0]:
            return True
    return False


def shrink(ints):
    w, lens, ops = _decode(ints)
    # drop ops
    pl = _lw(ints) == 0
    for i in range(len(ops)):
        yield _encode(w, lens, ops[:i] + ops[i + 1:], pl)
    # drop fields is not done (indices); reduce field lengths
    for i, n in enumerate(lens):
        if n > 0:
            yield _encode(w, lens[:i] + [n // 2] + lens[i + 1:], ops, pl)


def distribution(cases, impl):
    from collections import Counter
    opc = Counter()
    outc = Counter()
    sizes = Counter()
    for cid, ints in cases:
        w, lens, ops = _decode(ints)
        tot = DISC + sum(_lw(ints) + x for x in lens)
        sizes["<1K" if tot < 1024 else "<10K" if tot < 10240 else ">=10K"] += 1
        per, _ = _split_obs(impl.get(cid) or [], len(ops))
        for o, ob in zip(ops, per):
            opc[NAMES[o[0]].split("(")[0]] += 1
            outc["ok" if ob[:1] == [0] else "err" if ob[:1] == [1] else "panic" if ob == [2] else "skip"] += 1
    return {"ops": dict(opc), "outcomes": dict(outc), "initial_size": dict(sizes)}


def matches_known(entry, ints, obs):
    return False
