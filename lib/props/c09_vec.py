"""C09, second stage: containers forward the checks to EVERY element.

`Vec<T>` of single-account sets (T from the modifier family) decoded over n accounts and validated with each of the four
argument forms of account_set/impls/vec.rs: `()`, `(TA,)`, `Vec<TA>` with k arguments (k < n is an error, surplus
arguments are ignored), `[TA; k]` (k != n is an error); the fixed-size array `[T; n]` (impls/array.rs: `()`, `(TA,)`,
`[TA; n]`) and `Rest<T>` (rest.rs) - forms 4..7, which have no argument-count condition.  Model: coq/Account/Validate.v validate_vec (run_c09v),
theorems C09_vec_accepts_iff_every_account / C09_vec_no_account_skipped."""
from lib.props import c09 as A

ID = "C09"
STAGE = "vec"
ENTRY = "c09v"
GROUP = A.GROUP
BIN = A.BIN
HARNESS_ARGS = ["vec"]
E_INVALID_ARGUMENT = 2 << 32

VSIGS = [[], ["S"], ["M"], ["S", "M"], ["M", "S"], ["s1", "m0"], ["SA"], ["SA", "M"], ["SA", "M", "S"], ["S", "b"]]
RULE = ("stage 'vec': Vec<T> for %d element types (plain, Signer, Mut, both orders, MaybeSigner/MaybeMut, SystemAccount "
        "stacks, Box) x 0..5 accounts whose flags / owner are right except (at most) one account at every position x the "
        "four validate-argument forms of Vec (k in {n-2 .. n+2}), the three of the fixed-size array [T; n] and Rest<T>; accepted iff the form fits n and EVERY account passes every layer, "
        "the error is the first failing account's" % len(VSIGS))


def _case(form, k, accts, layers):
    c = list(A.PROG) + [form, k, len(accts)]
    for key, owner, sg, wr in accts:
        c += list(key) + list(owner) + [int(sg), int(wr)]
    return c + layers


def gen_cases(rng, tier):
    sigs, keys = A.family()
    cases = []
    n_id = 0
    reps = 1 if tier == "quick" else 12
    for sig in VSIGS:
        layers = A._layers(sig, keys)
        needs_sys = "SA" in sig
        good_owner = keys["sys"] if needs_sys else [44] * 32
        for n in range(0, 6):
            for bad_at in [None] + list(range(n)):
                for _ in range(reps):
                    accts = []
                    for i in range(n):
                        key = [60 + i] * 32
                        if i == bad_at:
                            what = rng.below(3)
                            sg, wr, ow = (what != 0), (what != 1), (good_owner if what != 2 else [45] * 32)
                        else:
                            sg, wr, ow = True, True, good_owner
                        accts.append((key, ow, sg, wr))
                    for form in (0, 1, 2, 3, 4, 5, 6, 7):
                        ks = [0] if form not in (2, 3) else sorted({max(0, n - 2), max(0, n - 1), n, n + 1, min(6, n + 2)})
                        for k in ks:
                            if form == 3 and k > 6:
                                continue
                            cases.append(("v%d" % n_id, _case(form, k, accts, layers)))
                            n_id += 1
    return cases


def _decode(c):
    form, k, n = c[32:35]
    i = 35
    accts = []
    for _ in range(n):
        accts.append((c[i:i + 32], c[i + 32:i + 64], c[i + 64], c[i + 65]))
        i += 66
    # reuse the single-account decoder for the layer list
    dummy = list(A.PROG) + [1] + [0] * 64 + [0, 0, 0] + c[i:]
    layers = A._decode(dummy)[7]
    return form, k, accts, layers


def describe(c):
    form, k, accts, layers = _decode(c)
    return {"validate_argument_form": ["Vec<T>: ()", "Vec<T>: (TA,)", "Vec<T>: Vec<TA> with k arguments", "Vec<T>: [TA; k]", "[T; n]: ()", "[T; n]: (TA,)",
                                       "[T; n]: [TA; n]", "Rest<T>: ()"][form], "k": k,
            "accounts": [{"key": a[0][:2], "owner": a[1][:2], "is_signer": bool(a[2]), "is_writable": bool(a[3])} for a in accts],
            "checks_in_order": [[A.LN[l[0]]] + list(l[1:]) for l in layers]}


def _acct_err(a, layers):
    key, owner, sg, wr = a
    for l in layers:
        t = l[0]
        if (t == 1 or (t == 3 and l[1])) and not sg:
            return A.E_SIGNER
        if (t == 2 or (t == 4 and l[1])) and not wr:
            return A.E_WRITABLE
        if t == 5 and key != l[1]:
            return A.E_PROGRAM
        if t == 6 and key != l[1]:
            return A.E_ADDRESS
        if t == 7 and owner != l[1]:
            return A.E_ILLEGAL_OWNER
    return None


def predicate(c, obs):
    if obs is None or (obs and obs[0] == "UNPARSEABLE"):
        return "no observation from the implementation"
    if obs and obs[0] < 0:
        return "harness family out of sync with the case generator (%s)" % obs
    if obs == [2]:
        return "panic during validation"
    form, k, accts, layers = _decode(c)
    n = len(accts)
    if (form == 2 and k < n) or (form == 3 and k != n):
        if obs[:1] == [0]:
            return "a Vec of %d accounts was accepted with %d validate arguments (form %d)" % (n, k, form)
        return None
    errs = [_acct_err(a, layers) for a in accts]
    first = next((e for e in errs if e is not None), None)
    if first is None:
        if obs != [0]:
            return "every account of the Vec satisfies every layer, yet it was rejected: %s" % obs
    else:
        if obs[:1] == [0]:
            return "the Vec was accepted although account %d violates a layer (expected error %s)" % (
                next(i for i, e in enumerate(errs) if e is not None), first)
        if obs != [1, first]:
            return "rejected with %s, the first failing account should give %s" % (obs, first)
    return None


def nontrivial(c, obs):
    form, k, accts, layers = _decode(c)
    return len(accts) > 0 and len(layers) > 0


def shrink(c):
    return []
