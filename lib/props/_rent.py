"""Shared by C12 / C13: program-derived addresses computed in Python (independent of solana-pubkey), the rent
formula of pinocchio 0.9.2, case encoding helpers and the observation parser of the CPI log."""
import hashlib

PROG = [77] * 32          # harness PROG_ID
SYS = [0] * 32
THIRD = [0xEE] * 32
U64 = (1 << 64) - 1

_P = 2 ** 255 - 19
_D = (-121665 * pow(121666, _P - 2, _P)) % _P


def on_curve(b32):
    """curve25519-dalek CompressedEdwardsY::decompress().is_some()"""
    y = int.from_bytes(bytes(b32), "little") & ((1 << 255) - 1)
    y %= _P
    u = (y * y - 1) % _P
    v = (_D * y * y + 1) % _P
    if v == 0:
        return u == 0
    x2 = u * pow(v, _P - 2, _P) % _P
    return x2 == 0 or pow(x2, (_P - 1) // 2, _P) == 1


def create_pda(seeds, prog=PROG):
    """Pubkey::create_program_address: None when the hash is a curve point"""
    h = hashlib.sha256()
    for s in seeds:
        h.update(bytes(s))
    h.update(bytes(prog))
    h.update(b"ProgramDerivedAddress")
    d = list(h.digest())
    return None if on_curve(d) else d


def find_pda(seeds, prog=PROG):
    for bump in range(255, -1, -1):
        a = create_pda(list(seeds) + [[bump]], prog)
        if a is not None:
            return a, bump
    raise RuntimeError("no bump")


def with_bump(seeds, bump):
    """SeedsWithBump::seeds_with_bump: a trailing empty seed is replaced by the bump, otherwise it is pushed"""
    s = [list(x) for x in seeds]
    if s and len(s[-1]) == 0:
        s[-1] = [bump]
    else:
        s.append([bump])
    return s


def min_balance(lpby, mult, n):
    """pinocchio Rent::minimum_balance for exemption_threshold 2.0 (mult=2) / 1.0 (mult=1)"""
    return (128 + n) * lpby * mult


def enc_acc(key, owner, lamports, signer, writable, data):
    return list(key) + list(owner) + [lamports, int(signer), int(writable), len(data)] + list(data)


def enc_bytes(b):
    return [len(b)] + list(b)


def enc_seeds(seeds):
    out = [len(seeds)]
    for s in seeds:
        out += enc_bytes(s)
    return out


class Cur:
    def __init__(self, v):
        self.v = v
        self.i = 0

    def next(self):
        x = self.v[self.i]
        self.i += 1
        return x

    def take(self, n):
        if self.i + n > len(self.v):
            raise IndexError
        x = self.v[self.i:self.i + n]
        self.i += n
        return x

    def done(self):
        return self.i >= len(self.v)


def dec_acc(c):
    key = c.take(32)
    owner = c.take(32)
    lam, sg, wr, n = c.next(), c.next(), c.next(), c.next()
    return {"key": key, "owner": owner, "lamports": lam, "signer": sg, "writable": wr, "data": c.take(n)}


def dec_bytes(c):
    return c.take(c.next())


def dec_seeds(c):
    return [dec_bytes(c) for _ in range(c.next())]


def dec_acc_obs(c):
    lam, ow, n = c.next(), c.next(), c.next()
    return {"lamports": lam, "owner": ow, "data": c.take(n)}


def dec_log(c):
    log = []
    for _ in range(c.next()):
        disc, lam, space, owner, nm = c.next(), c.next(), c.next(), c.next(), c.next()
        metas = [tuple(c.take(3)) for _ in range(nm)]
        seeds = [dec_seeds(c) for _ in range(c.next())]
        log.append({"ix": disc, "lamports": lam, "space": space, "owner": owner, "metas": metas, "seeds": seeds})
    return log
