"""C01 - unsized values behave like their owned models under any operation history."""
from lib import unsized_ops as O
from lib.props._unsized_ops import *  # noqa: F401,F403
from lib.props import _unsized_ops as B

ID = "C01"
COQ_TARGETS = ["Properties/C01.vo"]
RULE = ("case = shape x random initial value x history of 4..40 (path, op) steps generated against a plain owned-model oracle so "
        "that ~90% of ops are valid: push/insert/insert_all/remove/remove_range/pop/clear/index writes, set_len, element insert/"
        "remove/clear/get/get_mut on lists of unsized elements at any depth, map/set insert/remove/get, string set, whole-value "
        "replacement, initializer replacement, release + shared borrow + re-borrow. After every step: outcome, returned values, "
        "data length, byte checksum, canonical flag, live-accessor vs fresh-parse agreement, and the whole value. non-trivial = "
        "history with at least one successful resize; distinct = distinct encodings")


def gen_cases(rng, tier):
    return B.gen_ops_cases(rng, tier, 1500, 12000)


def predicate(c, obs):
    return O.judge(c, obs, {"model"})


def matches_known(entry, c, obs):
    why = predicate(c, obs) or ""
    return why.startswith("[%s]" % entry["id"])
