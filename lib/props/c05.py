"""C05 - serialize / initialize / deserialize round-trip with exact size accounting."""
from lib import unsized as U

ID = "C05"
ENTRY = "enc"
GROUP = "unsized"
BIN = "vh_unsized"
HARNESS_ARGS = ["enc"]
SECONDARY = ["c05_sized", "c05_client"]
COQ_TARGETS = ["Properties/C05.vo"]

RULE = ("case = one of the harness's shapes (lists with every prefix width, trailing bytes, lists/maps of unsized "
        "elements nested to depth 3, generated structs with and without a sized part, Map/Set/UnsizedString) with a random "
        "owned value (element counts 0..12, forced empty / single / prefix-boundary lengths). Observed: byte_size, bytes "
        "written / returned count / remaining slice for an exact, an oversized and an undersized buffer, owned(bytes), and the "
        "off-chain TestByteSet helper. non-trivial = value with at least one non-empty container; distinct = distinct encodings")
TRUSTED = [
    "Coq 8.16.1 kernel", "extraction (ExtrOcamlBasic only) + runner/driver.ml",
    "harness/src/{nodes,shapes}.rs, bin/vh_unsized.rs (the finite family of Rust shapes standing for the universe `ty`; "
    "each shape's descriptor is produced by the harness and cross-checked by comparing encodings)",
    "lib/unsized.py (independent Python encoder used by the predicate)",
]
ASSUMPTIONS = [
    "fixed-size leaves are plain bytes with a validity predicate (bool, u8-repr enums, packed structs); no padding (NoUninit)",
    "map keys compare as little-endian integers (u8, PackedValue<uN>), the key types of the harness family",
]


def gen_cases(rng, tier):
    fam = U.family()   # (the initializer probes at the end of every observation depend on the shape only)
    n = 2500 if tier == "quick" else 60000
    cases = []
    for j in range(n):
        idx, desc, ty = fam[j % len(fam)] if j < 4 * len(fam) else rng.choice(fam)
        v = U.gen_val(rng, ty, 24 if rng.chance(9, 10) else 300)
        v = U.fix_roles(idx, ty, v, rng)
        cases.append(("g%d" % j, [idx] + desc + U.enc_val(v)))
    # prefix boundaries: u8-prefixed list with 255 items
    for idx, desc, ty in fam:
        if ty[0] == "L" and ty[2] == 1:
            v = ("L", [U.gen_fixed(rng, ty[1]) for _ in range(255)])
            cases.append(("b%d" % idx, [idx] + desc + U.enc_val(v)))
    return cases


def _decode(c):
    idx = c[0]
    ty, r = U.dec_ty(c[1:])
    v, _ = U.dec_val(r)
    return idx, ty, v


def describe(c):
    idx, ty, v = _decode(c)
    return {"shape": idx, "type": ty, "value": v}


def predicate(c, obs):
    if obs is None or (obs and obs[0] == "UNPARSEABLE"):
        return "no observation"
    if obs[:1] == [-11]:
        return "the implementation crashed with signal %s" % obs[1:]
    if obs[:1] == [-5]:
        return "harness descriptor out of sync"
    idx, ty, v = _decode(c)
    exp = U.encode(ty, v)
    n = len(exp)
    i = 0
    if obs[i] != n:
        return "byte_size announces %d bytes, the canonical serialization has %d" % (obs[i], n)
    i += 1
    if obs[i:i + 3] != [0, n, 0]:
        return "from_owned into an exact buffer: expected (Ok, %d written, 0 left), got %s" % (n, obs[i:i + 3])
    i += 3
    if obs[i] != n or obs[i + 1:i + 1 + n] != exp:
        return "serialized bytes differ from the canonical encoding"
    i += 1 + n
    if obs[i:i + 2] != [0, 1]:
        return "deserializing the serialized bytes does not give the value back: %s" % obs[i:i + 2]
    i += 2
    if obs[i:i + 3] != [0, n, 5]:
        return "from_owned into an oversized buffer: wrong count / remaining slice %s" % obs[i:i + 3]
    i += 3
    if obs[i] != 1:
        return "from_owned wrote outside the announced bytes"
    i += 1
    if n > 0:
        if obs[i] != 1:
            return "from_owned into a too small buffer did not fail"
        i += 2
    else:
        i += 1
    if obs[i:i + 2] != [0, 1]:
        return "the test buffer helper does not round-trip the value (TestByteSet::new(v).owned() != v): %s" % obs[i:i + 2]
    i += 2
    # initialisers: the announced INIT_BYTES are exactly the bytes `init` writes, nothing outside them is touched, and what
    # was written deserializes
    if i < len(obs) and obs[i] == -790:
        i += 1
        while i < len(obs):
            kind, announced, tag = obs[i:i + 3]
            i += 3
            if tag == 0:
                consumed, tail_ok, nb = obs[i:i + 3]
                written = obs[i + 3:i + 3 + nb]
                i += 3 + nb
                rep = obs[i]
                i += 1
                # the bytes are the serialization of the value the initializer DENOTES (DefaultInit: the default value; the
                # array initializers: that many all-ones items) - an initializer whose value cannot be represented (more
                # items than the length prefix can count) must not report success
                want = U.init_val(ty, kind)
                if want[0] == "err":
                    return ("initializer kind %d reported success, but the value it denotes does not fit the type (%s): it wrote %s"
                            % (kind, "more items than the length prefix can count", written[:12]))
                if written != U.encode(ty, want):
                    return "initializer kind %d wrote %s...; the value it denotes serializes to %s..." % (
                        kind, written[:12], U.encode(ty, want)[:12])
                if consumed != announced:
                    return "initializer kind %d announces INIT_BYTES = %d but init wrote %d bytes" % (kind, announced, consumed)
                if not tail_ok:
                    return "initializer kind %d wrote outside its announced INIT_BYTES" % kind
                if rep != 0:
                    return "the bytes written by initializer kind %d do not deserialize" % kind
            elif tag == 1:
                i += 1
            elif tag == 2:
                return "initializer kind %d panicked" % kind
            else:
                return "malformed initializer observation"
    return None


def _nonempty(v):
    k = v[0]
    if k in ("L", "U"):
        return len(v[1]) > 0
    if k == "B":
        return False
    if k == "S":
        return any(_nonempty(x) for x in v[1])
    return True


def nontrivial(c, obs):
    return _nonempty(_decode(c)[2])


def shrink(c):
    idx, ty, v = _decode(c)
    desc = c[1:1 + len(c) - 1 - len(U.enc_val(v))]

    def smaller(v):
        k = v[0]
        if k in ("L", "U") and v[1]:
            yield (k, v[1][:-1])
            yield (k, v[1][1:])
        if k == "B" and v[1] and ty[0] == "R":
            yield ("B", v[1][:-1])
        if k == "S":
            for i, f in enumerate(v[1]):
                for g in smaller(f):
                    yield ("S", v[1][:i] + [g] + v[1][i + 1:])
        if k == "U":
            for i, (key, e) in enumerate(v[1]):
                for g in smaller(e):
                    yield ("U", v[1][:i] + [(key, g)] + v[1][i + 1:])
    for s in smaller(v):
        yield [idx] + desc + U.enc_val(s)


def distribution(cases, impl):
    from collections import Counter
    c1 = Counter()
    sizes = Counter()
    for cid, c in cases:
        c1["shape%d" % c[0]] += 1
        o = impl.get(cid) or [0]
        n = o[0] if isinstance(o[0], int) else -1
        sizes["0" if n == 0 else "<32" if n < 32 else "<256" if n < 256 else ">=256"] += 1
    return {"shapes": dict(c1), "serialized_size": dict(sizes)}


def matches_known(entry, c, obs):
    return False
