"""C14 - client, on-chain decode and CPI views of an instruction agree.

FAMILY (below) is the single description of the account-set shapes: tools/gen_c14_harness.py writes the Rust
harness (harness/src/bin/vh_c14.rs, one derived AccountSet + instruction per shape) from it, every case carries the
shape's encoding for the Coq model, and the predicate judges the implementation's observation from the shape alone."""

ID = "C14"
ENTRY = "c14"
GROUP = "acctset"
BIN = "vh_c14"
COQ_TARGETS = ["Properties/C14.vo"]

PROG = 77           # key id of the program under test: key(id) = [id; 32] for id in 0..255
SYS = 0             # System::ID = [0; 32]
RENT, INST = 1000, 1001
ARGS_MARK = -777

E_ADVANCE = 9004
E_SIGNER = 1001
E_WRITABLE = 1000
E_MISSING_PROGRAM = 1006
E_ADDRESS = 1002
E_INCORRECT_PROGRAM = 7 << 32

# ---- shapes ------------------------------------------------------------------------------------------------------
def leaf(*mods):
    """mods innermost first: ("S", 1) = MaybeSigner<true, _> (= Signer), ("M", 0) = MaybeMut<false, _>"""
    return ("leaf", tuple(mods))


L0 = leaf()
LS = leaf(("S", 1))
LM = leaf(("M", 1))
LSM = leaf(("S", 1), ("M", 1))          # Mut<Signer<AccountInfo>>
LMS = leaf(("M", 1), ("S", 1))          # Signer<Mut<AccountInfo>>
Ls0M = leaf(("M", 1), ("S", 0))         # MaybeSigner<false, Mut<AccountInfo>>
Lm0S = leaf(("S", 1), ("M", 0))         # MaybeMut<false, Signer<AccountInfo>>
LSs0 = leaf(("S", 1), ("S", 0))         # MaybeSigner<false, Signer<AccountInfo>>  (outer `false` on top of a requirement)
LMm0 = leaf(("M", 1), ("M", 0))         # MaybeMut<false, Mut<AccountInfo>>
PSYS = ("prog", SYS)
PSELF = ("prog", PROG)
YRENT = ("sysv", RENT)
YINST = ("sysv", INST)


def opt(s):
    return ("opt", s)


def vec(s):
    return ("vec", s)


def arr(n, s):
    return ("arr", n, s)


def box(s):
    return ("box", s)


def rest(s):
    return ("rest", s)


def st(name, *fs):
    return ("struct", name, list(fs))


NA = st("NA", LS, LM)
NB = st("NB", opt(L0), LS)
NC = st("NC", vec(L0), LS)
NE = st("NE")

# top-level account sets (each becomes `T<i>Accounts` + instruction `T<i>Ix`); the list order is the shape index
FAMILY = [
    [L0],
    [LS, LM, L0],
    [LSM, LMS, PSYS],
    [YRENT, PSELF, LS],
    [opt(L0)],
    [opt(LS), LM],
    [LS, opt(LM), opt(L0), L0],
    [opt(PSELF), L0],
    [opt(PSYS), YINST],
    [vec(L0)],
    [LS, vec(LM)],
    [vec(LS), vec(L0), LM],
    [arr(3, LM)],
    [arr(0, L0), LS],
    [arr(2, opt(LS))],
    [box(LS), box(opt(LM))],
    [rest(L0)],
    [LS, rest(LM)],
    [LS, rest(opt(LM))],
    [NA, L0],
    [NB, opt(NA)],
    [opt(NA), L0],
    [vec(NA)],
    [arr(2, NA), PSYS],
    [vec(opt(L0))],
    [opt(vec(L0)), L0],
    [opt(vec(L0)), opt(LS)],
    [vec(vec(L0))],
    [box(NA), box(L0)],
    [opt(opt(L0)), L0],
    [Ls0M, Lm0S],
    [LSs0, L0],
    [LMm0, L0],
    [NC, vec(LM)],
    [arr(2, vec(L0))],
    [rest(NA)],
    [opt(arr(2, LM)), LS],
    [opt(arr(0, L0)), L0],
    [NE, L0],
    [],
    [opt(NE), opt(L0)],
    [arr(63, L0)],
    [arr(50, L0), arr(50, LM)],
    [vec(box(LS)), opt(box(NA))],
    [LS, opt(NC), rest(opt(NA))],
]


def top(i):
    return ("struct", "T%d" % i, FAMILY[i])


def nvec(s):
    k = s[0]
    if k in ("leaf", "prog", "sysv"):
        return 0
    if k == "vec":
        return 1 + nvec(s[1])
    if k in ("opt", "box", "rest"):
        return nvec(s[1])
    if k == "arr":
        return nvec(s[2])
    return sum(nvec(f) for f in s[2])


def declared_len(s):
    k = s[0]
    if k in ("leaf", "prog", "sysv"):
        return 1
    if k == "opt":
        return 1 if declared_len(s[1]) == 1 else 100
    if k in ("vec", "rest"):
        return 100
    if k == "box":
        return declared_len(s[1])
    if k == "arr":
        return declared_len(s[2]) * s[1]
    return min(sum(declared_len(f) for f in s[2]), 100)


def cpi_compiles(s):
    """HandleCpiArray is implemented for U0..U63 and the dynamic sentinel U100 (cpi.rs)"""
    d = declared_len(s)
    return d <= 63 or d == 100


def enc_shape(s):
    k = s[0]
    if k == "leaf":
        out = [1, len(s[1])]
        for m, b in s[1]:
            out += [0 if m == "S" else 1, b]
        return out
    if k == "prog":
        return [2, s[1]]
    if k == "sysv":
        return [3, s[1]]
    if k == "opt":
        return [4] + enc_shape(s[1])
    if k == "vec":
        return [5] + enc_shape(s[1])
    if k == "arr":
        return [6, s[1]] + enc_shape(s[2])
    if k == "box":
        return [7] + enc_shape(s[1])
    if k == "rest":
        return [8] + enc_shape(s[1])
    out = [9, len(s[2])]
    for f in s[2]:
        out += enc_shape(f)
    return out


def show(s):
    k = s[0]
    if k == "leaf":
        t = "AccountInfo"
        for m, v in s[1]:
            if v:
                t = ("Signer<%s>" if m == "S" else "Mut<%s>") % t
            else:
                t = ("MaybeSigner<false, %s>" if m == "S" else "MaybeMut<false, %s>") % t
        return t
    if k == "prog":
        return "Program<System>" if s[1] == SYS else "Program<Self>"
    if k == "sysv":
        return "Sysvar<Rent>" if s[1] == RENT else "Sysvar<Instructions>"
    if k in ("opt", "vec", "box", "rest"):
        return {"opt": "Option", "vec": "Vec", "box": "Box", "rest": "Rest"}[k] + "<" + show(s[1]) + ">"
    if k == "arr":
        return "[%s; %d]" % (show(s[2]), s[1])
    return "%s{%s}" % (s[1], ", ".join(show(f) for f in s[2]))


# ---- client values -----------------------------------------------------------------------------------------------
# ("k", id) single account | ("ok", None | id) Program/Sysvar (Option<Pubkey>) | ("o", None | v) | ("l", [v]) | ("s", [v])
def gen_value(rng, s, lens, pos, mode):
    """pos = [index of the next static Vec node]; mode: 'wf' | 'wild' (program-id keys, wrong lengths, overrides)"""
    k = s[0]
    if k == "leaf":
        if mode == "wild" and rng.chance(1, 6):
            return ("k", PROG)
        kid = rng.range(1, 200)
        return ("k", kid if kid != PROG else 201)
    if k in ("prog", "sysv"):
        if mode == "wild" and rng.chance(1, 5):
            return ("ok", rng.choice([s[1], 5, PROG]))
        return ("ok", None if rng.chance(3, 4) else s[1])
    if k == "opt":
        if rng.chance(2, 5):
            # keep the static Vec numbering in step
            pos[0] += nvec(s[1])
            return ("o", None)
        return ("o", gen_value(rng, s[1], lens, pos, mode))
    if k == "box":
        return gen_value(rng, s[1], lens, pos, mode)
    if k == "vec":
        n = lens[pos[0]]
        pos[0] += 1
        if mode == "wild" and rng.chance(1, 4):
            n = max(0, n + rng.choice([-1, 1]))
        p0 = pos[0]
        items = []
        for _ in range(n):
            pos[0] = p0
            items.append(gen_value(rng, s[1], lens, pos, mode))
        pos[0] = p0 + nvec(s[1])
        return ("l", items)
    if k == "rest":
        n = rng.range(0, 3)
        p0 = pos[0]
        items = []
        for _ in range(n):
            pos[0] = p0
            items.append(gen_value(rng, s[1], lens, pos, mode))
        pos[0] = p0 + nvec(s[1])
        return ("l", items)
    if k == "arr":
        p0 = pos[0]
        items = []
        for _ in range(s[1]):
            pos[0] = p0
            items.append(gen_value(rng, s[2], lens, pos, mode))
        pos[0] = p0 + nvec(s[2])
        return ("l", items)
    return ("s", [gen_value(rng, f, lens, pos, mode) for f in s[2]])


def enc_val(s, v):
    k = s[0]
    if k == "leaf":
        return [v[1]]
    if k in ("prog", "sysv"):
        return [0] if v[1] is None else [1, v[1]]
    if k == "opt":
        return [0] if v[1] is None else [1] + enc_val(s[1], v[1])
    if k == "box":
        return enc_val(s[1], v)
    if k in ("vec", "rest"):
        out = [len(v[1])]
        for x in v[1]:
            out += enc_val(s[1], x)
        return out
    if k == "arr":
        out = []
        for x in v[1]:
            out += enc_val(s[2], x)
        return out
    out = []
    for f, x in zip(s[2], v[1]):
        out += enc_val(f, x)
    return out


def dec_val(s, c, i):
    k = s[0]
    if k == "leaf":
        return ("k", c[i]), i + 1
    if k in ("prog", "sysv"):
        if c[i] == 0:
            return ("ok", None), i + 1
        return ("ok", c[i + 1]), i + 2
    if k == "opt":
        if c[i] == 0:
            return ("o", None), i + 1
        v, i = dec_val(s[1], c, i + 1)
        return ("o", v), i
    if k == "box":
        return dec_val(s[1], c, i)
    if k in ("vec", "rest"):
        n = c[i]
        i += 1
        items = []
        for _ in range(n):
            v, i = dec_val(s[1], c, i)
            items.append(v)
        return ("l", items), i
    if k == "arr":
        items = []
        for _ in range(s[1]):
            v, i = dec_val(s[2], c, i)
            items.append(v)
        return ("l", items), i
    items = []
    for f in s[2]:
        v, i = dec_val(f, c, i)
        items.append(v)
    return ("s", items), i


# ---- extra (run) arguments: sidx % 6 -> (), u64, String, Vec<u16>, Option<i32>, Inner{a:u8,b:[u8;4],c:bool} --------
def gen_extra(rng, kind):
    if kind == 0:
        return []
    if kind == 1:
        return [rng.choice([0, 1, (1 << 64) - 1, rng.next()])]
    if kind == 2:
        n = rng.range(0, 12)
        return [n] + [rng.range(32, 126) for _ in range(n)]
    if kind == 3:
        n = rng.range(0, 5)
        return [n] + [rng.range(0, 65535) for _ in range(n)]
    if kind == 4:
        return [0] if rng.chance(1, 3) else [1, rng.range(-(1 << 31), (1 << 31) - 1)]
    return [rng.range(0, 255)] + rng.bytes(4) + [rng.below(2)]


def borsh_extra(kind, e):
    if kind == 0:
        return []
    if kind == 1:
        return list(int(e[0]).to_bytes(8, "little"))
    if kind == 2:
        return list(int(e[0]).to_bytes(4, "little")) + list(e[1:])
    if kind == 3:
        out = list(int(e[0]).to_bytes(4, "little"))
        for x in e[1:]:
            out += list(int(x).to_bytes(2, "little"))
        return out
    if kind == 4:
        return [0] if e[0] == 0 else [1] + list(int(e[1]).to_bytes(4, "little", signed=True))
    return list(e)


def make_case(sidx, lens, val, extra):
    s = top(sidx)
    sh = enc_shape(s)
    return [sidx, len(sh)] + sh + [len(lens)] + list(lens) + enc_val(s, val) + list(extra)


def decode_case(c):
    sidx = c[0]
    n = c[1]
    i = 2 + n
    k = c[i]
    lens = c[i + 1:i + 1 + k]
    i += 1 + k
    s = top(sidx)
    val, i = dec_val(s, c, i)
    return {"sidx": sidx, "shape": s, "lens": lens, "val": val, "extra": c[i:]}
