"""C14 - client, on-chain decode and CPI views of an instruction agree.

FAMILY (below) is the single description of the account-set shapes: tools/gen_c14_harness.py writes the Rust
harness (harness/src/bin/vh_c14.rs, one derived AccountSet + instruction per shape) from it, every case carries the
shape's encoding for the Coq model, and the predicate judges the implementation's observation from the shape alone."""

ID = "C14"
ENTRY = "c14"
GROUP = "acctset"
BIN = "vh_c14"
COQ_TARGETS = ["Properties/C14.vo"]

PROG = 77           # key id of the program under test: key(id) = [id; 32] for id in 0..255
SYS = 0             # System::ID = [0; 32]
RENT, INST = 1000, 1001
ARGS_MARK = -777
PHASE_MARK = -780

E_ADVANCE = 9004
E_SIGNER = 1001
E_WRITABLE = 1000
E_MISSING_PROGRAM = 1006
E_ADDRESS = 1002
E_INCORRECT_PROGRAM = 7 << 32

# ---- shapes ------------------------------------------------------------------------------------------------------
def leaf(*mods):
    """mods innermost first: ("S", 1) = MaybeSigner<true, _> (= Signer), ("M", 0) = MaybeMut<false, _>"""
    return ("leaf", tuple(mods))


L0 = leaf()
LS = leaf(("S", 1))
LM = leaf(("M", 1))
LSM = leaf(("S", 1), ("M", 1))          # Mut<Signer<AccountInfo>>
LMS = leaf(("M", 1), ("S", 1))          # Signer<Mut<AccountInfo>>
Ls0M = leaf(("M", 1), ("S", 0))         # MaybeSigner<false, Mut<AccountInfo>>
Lm0S = leaf(("S", 1), ("M", 0))         # MaybeMut<false, Signer<AccountInfo>>
LSs0 = leaf(("S", 1), ("S", 0))         # MaybeSigner<false, Signer<AccountInfo>>  (outer `false` on top of a requirement)
LMm0 = leaf(("M", 1), ("M", 0))         # MaybeMut<false, Mut<AccountInfo>>
PSYS = ("prog", SYS)
PSELF = ("prog", PROG)
YRENT = ("sysv", RENT)
YINST = ("sysv", INST)


def opt(s):
    return ("opt", s)


def vec(s):
    return ("vec", s)


def arr(n, s):
    return ("arr", n, s)


def box(s):
    return ("box", s)


def rest(s):
    return ("rest", s)


def st(name, *fs):
    return ("struct", name, list(fs))


NA = st("NA", LS, LM)
NB = st("NB", opt(L0), LS)
NC = st("NC", vec(L0), LS)
NE = st("NE")

# top-level account sets (each becomes `T<i>Accounts` + instruction `T<i>Ix`); the list order is the shape index
FAMILY = [
    [L0],
    [LS, LM, L0],
    [LSM, LMS, PSYS],
    [YRENT, PSELF, LS],
    [opt(L0)],
    [opt(LS), LM],
    [LS, opt(LM), opt(L0), L0],
    [opt(PSELF), L0],
    [opt(PSYS), YINST],
    [vec(L0)],
    [LS, vec(LM)],
    [vec(LS), vec(L0), LM],
    [arr(3, LM)],
    [arr(0, L0), LS],
    [arr(2, opt(LS))],
    [box(LS), box(opt(LM))],
    [rest(L0)],
    [LS, rest(LM)],
    [LS, rest(opt(LM))],
    [NA, L0],
    [NB, opt(NA)],
    [opt(NA), L0],
    [vec(NA)],
    [arr(2, NA), PSYS],
    [vec(opt(L0))],
    [opt(vec(L0)), L0],
    [opt(vec(L0)), opt(LS)],
    [vec(vec(L0))],
    [box(NA), box(L0)],
    [opt(opt(L0)), L0],
    [Ls0M, Lm0S],
    [LSs0, L0],
    [LMm0, L0],
    [NC, vec(LM)],
    [arr(2, vec(L0))],
    [rest(NA)],
    [opt(arr(2, LM)), LS],
    [opt(arr(0, L0)), L0],
    [NE, L0],
    [],
    [opt(NE), opt(L0)],
    [arr(63, L0)],
    [arr(50, L0), arr(50, LM)],
    [vec(box(LS)), opt(box(NA))],
    [LS, opt(NC), rest(opt(NA))],
]

NBASE = len(FAMILY)

# ---- argument layouts --------------------------------------------------------------------------------------------
# Instructions whose argument struct hands SINGLE FIELDS to the four phases of the entry path (InstructionArgs derive,
# `#[ix_args(..)]` on fields): per field the tuple of its marks ("decode" | "validate" | "run" | "&run" | "cleanup"),
# () = plain instruction data that no phase receives.  Every field is a u8 (a phase handed ANOTHER field of the struct
# still type-checks, which is what makes a wrong field index silent); `tuple` = a tuple struct (fields addressed by
# position: `r.1`) or its named-field control (`r.x1`); `self` = marks on the struct itself (the whole struct).
# The decode-marked fields are, in declaration order, the lengths of the shape's Vec fields.
PHASES = ("decode", "validate", "run", "cleanup")
AS1 = [LS, vec(L0), LM]
AS2 = [vec(LS), L0, vec(LM)]
_D, _V, _R, _RR, _C, _N = ("decode",), ("validate",), ("run",), ("&run",), ("cleanup",), ()


def _both(shape, fields, self_marks=()):
    return [{"shape": shape, "tuple": t, "fields": list(fields), "self": tuple(self_marks)} for t in (True, False)]


LAYOUTS = (
    # (a) an un-annotated field first, then decode and run:  Notify(u8, #[ix_args(decode)] u8, #[ix_args(run)] u8)
    _both(AS1, [_N, _D, _R])
    # (b) annotated fields in non-declaration phase order (fully annotated, then behind an un-annotated field)
    + _both(AS1, [_R, _C, _D, _V])
    + _both(AS1, [_N, _C, _RR, _V, _D])
    # (c) an annotated field between two un-annotated ones, then one more annotated field
    + _both(AS1, [_N, _D, _N, _RR])
    + _both(AS1, [_N, _N, _V, _D, _N, _R, _N])
    # several fields per phase (the phase receives a tuple, declaration order), one field marked for two phases
    + _both(AS2, [_D, _N, ("decode", "run"), _N, _C, _V, _R])
    + _both(AS1, [_N, _V, _D, _C, _N, _V, _C])
    # the whole struct to the handler, single fields to the other phases
    + _both(AS1, [_N, _D, _N, _V], ("&run",))
)
FAMILY = FAMILY + [lay["shape"] for lay in LAYOUTS]


def layout_of(sidx):
    return LAYOUTS[sidx - NBASE] if sidx >= NBASE else None


def phase_of(mark):
    return PHASES.index(mark.lstrip("&"))


def is_decode_field(marks):
    return any(phase_of(m) == 0 for m in marks)


def layout_values(lay, lens, extra):
    """all field values in declaration order: the decode-marked fields are the Vec lengths, the others come from the case"""
    lens, extra = list(lens), list(extra)
    return [lens.pop(0) if is_decode_field(m) else extra.pop(0) for m in lay["fields"]]


def expected_phases(lay, vals):
    """(phase, value) in the order the entry path runs the phases; within a phase the struct itself first, then the marked
    fields in declaration order (= the components of the phase's argument tuple)"""
    out = []
    for ph in range(4):
        if any(phase_of(m) == ph for m in lay["self"]):
            out += [(ph, v) for v in vals]
        for marks, v in zip(lay["fields"], vals):
            out += [(ph, v) for m in marks if phase_of(m) == ph]
    return out


def show_layout(lay):
    fs = []
    for i, m in enumerate(lay["fields"]):
        a = "#[ix_args(%s)] " % ", ".join(m) if m else ""
        fs.append(a + ("u8" if lay["tuple"] else "x%d: u8" % i))
    head = "#[ix_args(%s)] " % ", ".join(lay["self"]) if lay["self"] else ""
    return head + ("Ix(%s)" if lay["tuple"] else "Ix { %s }") % ", ".join(fs)


def top(i):
    return ("struct", "T%d" % i, FAMILY[i])


def nvec(s):
    k = s[0]
    if k in ("leaf", "prog", "sysv"):
        return 0
    if k == "vec":
        return 1 + nvec(s[1])
    if k in ("opt", "box", "rest"):
        return nvec(s[1])
    if k == "arr":
        return nvec(s[2])
    return sum(nvec(f) for f in s[2])


def declared_len(s):
    k = s[0]
    if k in ("leaf", "prog", "sysv"):
        return 1
    if k == "opt":
        return 1 if declared_len(s[1]) == 1 else 100
    if k in ("vec", "rest"):
        return 100
    if k == "box":
        return declared_len(s[1])
    if k == "arr":
        return declared_len(s[2]) * s[1]
    return min(sum(declared_len(f) for f in s[2]), 100)


def cpi_compiles(s):
    """HandleCpiArray is implemented for U0..U63 and the dynamic sentinel U100 (cpi.rs)"""
    d = declared_len(s)
    return d <= 63 or d == 100


def enc_shape(s):
    k = s[0]
    if k == "leaf":
        out = [1, len(s[1])]
        for m, b in s[1]:
            out += [0 if m == "S" else 1, b]
        return out
    if k == "prog":
        return [2, s[1]]
    if k == "sysv":
        return [3, s[1]]
    if k == "opt":
        return [4] + enc_shape(s[1])
    if k == "vec":
        return [5] + enc_shape(s[1])
    if k == "arr":
        return [6, s[1]] + enc_shape(s[2])
    if k == "box":
        return [7] + enc_shape(s[1])
    if k == "rest":
        return [8] + enc_shape(s[1])
    out = [9, len(s[2])]
    for f in s[2]:
        out += enc_shape(f)
    return out


def show(s):
    k = s[0]
    if k == "leaf":
        t = "AccountInfo"
        for m, v in s[1]:
            if v:
                t = ("Signer<%s>" if m == "S" else "Mut<%s>") % t
            else:
                t = ("MaybeSigner<false, %s>" if m == "S" else "MaybeMut<false, %s>") % t
        return t
    if k == "prog":
        return "Program<System>" if s[1] == SYS else "Program<Self>"
    if k == "sysv":
        return "Sysvar<Rent>" if s[1] == RENT else "Sysvar<Instructions>"
    if k in ("opt", "vec", "box", "rest"):
        return {"opt": "Option", "vec": "Vec", "box": "Box", "rest": "Rest"}[k] + "<" + show(s[1]) + ">"
    if k == "arr":
        return "[%s; %d]" % (show(s[2]), s[1])
    return "%s{%s}" % (s[1], ", ".join(show(f) for f in s[2]))


# ---- client values -----------------------------------------------------------------------------------------------
# ("k", id) single account | ("ok", None | id) Program/Sysvar (Option<Pubkey>) | ("o", None | v) | ("l", [v]) | ("s", [v])
def gen_value(rng, s, lens, pos, mode):
    """pos = [index of the next static Vec node]; mode: 'wf' | 'wild' (program-id keys, wrong lengths, overrides)"""
    k = s[0]
    if k == "leaf":
        if mode == "wild" and rng.chance(1, 6):
            return ("k", PROG)
        kid = rng.range(1, 200)
        return ("k", kid if kid != PROG else 201)
    if k in ("prog", "sysv"):
        if mode == "wild" and rng.chance(1, 5):
            return ("ok", rng.choice([s[1], 5, PROG]))
        return ("ok", None if rng.chance(3, 4) else s[1])
    if k == "opt":
        if rng.chance(2, 5):
            # keep the static Vec numbering in step
            pos[0] += nvec(s[1])
            return ("o", None)
        return ("o", gen_value(rng, s[1], lens, pos, mode))
    if k == "box":
        return gen_value(rng, s[1], lens, pos, mode)
    if k == "vec":
        n = lens[pos[0]]
        pos[0] += 1
        if mode == "wild" and rng.chance(1, 4):
            n = max(0, n + rng.choice([-1, 1]))
        p0 = pos[0]
        items = []
        for _ in range(n):
            pos[0] = p0
            items.append(gen_value(rng, s[1], lens, pos, mode))
        pos[0] = p0 + nvec(s[1])
        return ("l", items)
    if k == "rest":
        n = rng.range(0, 3)
        # now and then a long tail: the CPI scratch arrays of dynamic-length sets have size classes (cpi.rs HandleCpiArray,
        # up to the runtime's 64 accounts per CPI); 30 / 33 / 40 accounts sit on both sides of the 32 boundary
        if mode == "wf" and rng.chance(1, 10):
            n = rng.choice([30, 33, 40])
        p0 = pos[0]
        items = []
        for _ in range(n):
            pos[0] = p0
            items.append(gen_value(rng, s[1], lens, pos, mode))
        pos[0] = p0 + nvec(s[1])
        return ("l", items)
    if k == "arr":
        p0 = pos[0]
        items = []
        for _ in range(s[1]):
            pos[0] = p0
            items.append(gen_value(rng, s[2], lens, pos, mode))
        pos[0] = p0 + nvec(s[2])
        return ("l", items)
    return ("s", [gen_value(rng, f, lens, pos, mode) for f in s[2]])


def enc_val(s, v):
    k = s[0]
    if k == "leaf":
        return [v[1]]
    if k in ("prog", "sysv"):
        return [0] if v[1] is None else [1, v[1]]
    if k == "opt":
        return [0] if v[1] is None else [1] + enc_val(s[1], v[1])
    if k == "box":
        return enc_val(s[1], v)
    if k in ("vec", "rest"):
        out = [len(v[1])]
        for x in v[1]:
            out += enc_val(s[1], x)
        return out
    if k == "arr":
        out = []
        for x in v[1]:
            out += enc_val(s[2], x)
        return out
    out = []
    for f, x in zip(s[2], v[1]):
        out += enc_val(f, x)
    return out


def dec_val(s, c, i):
    k = s[0]
    if k == "leaf":
        return ("k", c[i]), i + 1
    if k in ("prog", "sysv"):
        if c[i] == 0:
            return ("ok", None), i + 1
        return ("ok", c[i + 1]), i + 2
    if k == "opt":
        if c[i] == 0:
            return ("o", None), i + 1
        v, i = dec_val(s[1], c, i + 1)
        return ("o", v), i
    if k == "box":
        return dec_val(s[1], c, i)
    if k in ("vec", "rest"):
        n = c[i]
        i += 1
        items = []
        for _ in range(n):
            v, i = dec_val(s[1], c, i)
            items.append(v)
        return ("l", items), i
    if k == "arr":
        items = []
        for _ in range(s[1]):
            v, i = dec_val(s[2], c, i)
            items.append(v)
        return ("l", items), i
    items = []
    for f in s[2]:
        v, i = dec_val(f, c, i)
        items.append(v)
    return ("s", items), i


# ---- extra (run) arguments: sidx % 6 -> (), u64, String, Vec<u16>, Option<i32>, Inner{a:u8,b:[u8;4],c:bool} --------
def gen_extra(rng, kind):
    if kind == 0:
        return []
    if kind == 1:
        return [rng.choice([0, 1, (1 << 64) - 1, rng.next()])]
    if kind == 2:
        n = rng.range(0, 12)
        return [n] + [rng.range(32, 126) for _ in range(n)]
    if kind == 3:
        n = rng.range(0, 5)
        return [n] + [rng.range(0, 65535) for _ in range(n)]
    if kind == 4:
        return [0] if rng.chance(1, 3) else [1, rng.range(-(1 << 31), (1 << 31) - 1)]
    return [rng.range(0, 255)] + rng.bytes(4) + [rng.below(2)]


def gen_layout_extra(rng, lay, lens):
    """values of the fields that are not decode-marked, pairwise different and different from the Vec lengths: a phase
    that receives another field of the struct receives another VALUE"""
    used = set(lens)
    out = []
    for m in lay["fields"]:
        if is_decode_field(m):
            continue
        while True:
            v = rng.range(0, 6) if rng.chance(1, 2) else rng.range(0, 255)
            if v not in used:
                break
        used.add(v)
        out.append(v)
    return out


def borsh_extra(kind, e):
    if kind == 0:
        return []
    if kind == 1:
        return list(int(e[0]).to_bytes(8, "little"))
    if kind == 2:
        return list(int(e[0]).to_bytes(4, "little")) + list(e[1:])
    if kind == 3:
        out = list(int(e[0]).to_bytes(4, "little"))
        for x in e[1:]:
            out += list(int(x).to_bytes(2, "little"))
        return out
    if kind == 4:
        return [0] if e[0] == 0 else [1] + list(int(e[1]).to_bytes(4, "little", signed=True))
    return list(e)


def make_case(sidx, lens, val, extra):
    s = top(sidx)
    sh = enc_shape(s)
    return [sidx, len(sh)] + sh + [len(lens)] + list(lens) + enc_val(s, val) + list(extra)


def decode_case(c):
    sidx = c[0]
    n = c[1]
    i = 2 + n
    k = c[i]
    lens = c[i + 1:i + 1 + k]
    i += 1 + k
    s = top(sidx)
    val, i = dec_val(s, c, i)
    return {"sidx": sidx, "shape": s, "lens": lens, "val": val, "extra": c[i:]}


# ---- reference semantics used by the predicate (from the property text, not from the Coq model) ------------------
def req_flags(mods):
    return (int(any(m == "S" and b for m, b in mods)), int(any(m == "M" and b for m, b in mods)))


def metas_ref(s, v):
    """keys in declaration order; flags = exactly what the leaf's validation requires; absent optional = read-only
    meta of the program id"""
    k = s[0]
    if k == "leaf":
        sg, wr = req_flags(s[1])
        return [(v[1], sg, wr)]
    if k in ("prog", "sysv"):
        return [(s[1] if v[1] is None else v[1], 0, 0)]
    if k == "opt":
        return [(PROG, 0, 0)] if v[1] is None else metas_ref(s[1], v[1])
    if k == "box":
        return metas_ref(s[1], v)
    if k in ("vec", "rest"):
        return [m for x in v[1] for m in metas_ref(s[1], x)]
    if k == "arr":
        return [m for x in v[1] for m in metas_ref(s[2], x)]
    return [m for f, x in zip(s[2], v[1]) for m in metas_ref(f, x)]


def tree_ref(s, v):
    """the decoded account set, as the harness prints it"""
    k = s[0]
    if k in ("leaf", "prog", "sysv"):
        return [x for m in metas_ref(s, v) for x in m]
    if k == "opt":
        return [0] if v[1] is None else [1] + tree_ref(s[1], v[1])
    if k == "box":
        return tree_ref(s[1], v)
    if k in ("vec", "rest"):
        return [len(v[1])] + [x for e in v[1] for x in tree_ref(s[1], e)]
    if k == "arr":
        return [len(v[1])] + [x for e in v[1] for x in tree_ref(s[2], e)]
    return [x for f, e in zip(s[2], v[1]) for x in tree_ref(f, e)]


def wf(s, v, lens, off, last):
    """the documented conditions under which the placeholder encoding is unambiguous"""
    k = s[0]
    if k == "leaf":
        return True
    if k in ("prog", "sysv"):
        return True
    if k == "opt":
        if v[1] is None:
            return True
        ms = metas_ref(s[1], v[1])
        return wf(s[1], v[1], lens, off, last) and len(ms) > 0 and ms[0][0] != PROG
    if k == "box":
        return wf(s[1], v, lens, off, last)
    if k == "vec":
        return len(v[1]) == lens[off] and all(wf(s[1], x, lens, off + 1, False) for x in v[1])
    if k == "arr":
        return len(v[1]) == s[1] and all(wf(s[2], x, lens, off, False) for x in v[1])
    if k == "rest":
        return last and all(wf(s[1], x, lens, off, False) and len(metas_ref(s[1], x)) > 0 for x in v[1])
    o = off
    for i, (f, x) in enumerate(zip(s[2], v[1])):
        if not wf(f, x, lens, o, last and i == len(s[2]) - 1):
            return False
        o += nvec(f)
    return True


def keys_valid(s, v):
    k = s[0]
    if k == "leaf":
        return True
    if k in ("prog", "sysv"):
        return v[1] is None or v[1] == s[1]
    if k == "opt":
        return v[1] is None or keys_valid(s[1], v[1])
    if k == "box":
        return keys_valid(s[1], v)
    if k in ("vec", "rest"):
        return all(keys_valid(s[1], x) for x in v[1])
    if k == "arr":
        return all(keys_valid(s[2], x) for x in v[1])
    return all(keys_valid(f, x) for f, x in zip(s[2], v[1]))


class _Rd:
    def __init__(self, o):
        self.o = o
        self.i = 0

    def next(self):
        v = self.o[self.i]
        self.i += 1
        return v

    def take(self, n):
        if n < 0 or self.i + n > len(self.o):
            raise IndexError
        v = self.o[self.i:self.i + n]
        self.i += n
        return v

    def tag(self):
        t = self.next()
        return (t, self.next()) if t == 1 else (t, None)

    def metas(self):
        n = self.next()
        return [tuple(self.take(3)) for _ in range(n)]

    def tree(self, s):
        k = s[0]
        if k in ("leaf", "prog", "sysv"):
            return self.take(3)
        if k == "opt":
            t = self.next()
            return [0] if t == 0 else [1] + self.tree(s[1])
        if k == "box":
            return self.tree(s[1])
        if k in ("vec", "rest", "arr"):
            n = self.next()
            out = [n]
            for _ in range(n):
                out += self.tree(s[1] if k != "arr" else s[2])
            return out
        out = []
        for f in s[2]:
            out += self.tree(f)
        return out


def parse_obs(s, obs):
    r = _Rd(obs)
    o = {"metas": r.metas()}
    o["decode"] = r.tag()
    if o["decode"][0] == 0:
        o["remaining"] = r.next()
        o["tree"] = r.tree(s)
        o["validate"] = r.tag()
    o["dispatch"] = r.tag()
    o["reached"] = r.next()
    if o["reached"]:
        o["same"] = r.next()
        o["cpi_built"] = r.next()
        o["declared_len"] = r.next()
        o["contains_option"] = r.next()
        if o["cpi_built"]:
            o["cpi"] = r.tag()
            if o["cpi"][0] == 0:
                o["cpi_program"] = r.next()
                o["cpi_metas"] = r.metas()
                n = r.next()
                o["cpi_infos"] = r.take(n)
                o["cpi_data_same"] = r.next()
    if r.i < len(obs) and obs[r.i] == ARGS_MARK:
        r.next()
        n = r.next()
        o["data"] = r.take(n)
        n = r.next()
        o["echo"] = None if n < 0 else r.take(n)
    if r.i < len(obs) and obs[r.i] == PHASE_MARK:
        r.next()
        n = r.next()
        o["phases"] = [tuple(r.take(2)) for _ in range(n)]   # (phase, value) in the order the entry path ran them
    if r.i < len(obs) and obs[r.i] == -778:
        r.next()
        o["over_privileged"] = r.next()      # 1 same CPI view, 0 different, -1 rejected, 2 not run
    if r.i < len(obs) and obs[r.i] == -779:
        r.next()
        o["other_state"] = r.next()          # the same for accounts with no lamports / a foreign owner / data
    return o


def project_impl(obs):
    """the part of the observation the Coq model speaks about (arguments are judged by the predicate only)"""
    if obs is None:
        return None
    if ARGS_MARK in obs:
        return obs[:obs.index(ARGS_MARK)]
    return obs


def _m(ms):
    return ", ".join("%s%s%s" % (k, "s" if sg else "", "w" if wr else "") for k, sg, wr in ms)


def predicate(c, obs):
    if obs is None or (obs and obs[0] == "UNPARSEABLE"):
        return "no observation from the implementation"
    if obs and obs[0] == -9:
        return "the program did not terminate on the client's own account list (killed by the time / memory limit)"
    if obs and obs[0] < 0:
        return "harness family out of sync with the case generator (%s)" % obs[:1]
    d = decode_case(c)
    s, v, lens = d["shape"], d["val"], d["lens"]
    kind = d["sidx"] % 6
    try:
        o = parse_obs(s, obs)
    except IndexError:
        return "truncated observation"
    # arguments: what the client serialised is discriminant ++ borsh(args), and the program decodes the same args
    lay = layout_of(d["sidx"])
    if lay is None:
        want_data = [d["sidx"]] + list(lens) + borsh_extra(kind, d["extra"])
        want_echo = borsh_extra(kind, d["extra"])
    else:
        vals = layout_values(lay, lens, d["extra"])
        want_data = [d["sidx"]] + vals
        want_echo = [x for ph, x in expected_phases(lay, vals) if ph == 2]
    if o.get("data") != want_data:
        return "client instruction data %s, expected discriminant ++ borsh(args) = %s" % (o.get("data"), want_data)
    if lay is not None:
        bad = _judge_phases(lay, vals, o)
        if bad:
            return bad
    if o["reached"] and o.get("echo") != want_echo:
        return "the program decoded different arguments than the client encoded (%s)" % (o.get("echo"),)
    if not (wf(s, v, lens, 0, True) and keys_valid(s, v)):
        return None                      # documented placeholder ambiguity / deliberately invalid addresses
    ref = metas_ref(s, v)
    if [m[0] for m in o["metas"]] != [m[0] for m in ref]:
        return "client metas carry keys [%s], the account set lists [%s]" % (_m(o["metas"]), _m(ref))
    if o["decode"][0] != 0:
        return "the program could not decode the client's own account list (%s)" % (o["decode"],)
    if o["remaining"] != 0:
        return "decode consumed %d accounts fewer than the client sent" % o["remaining"]
    exp_tree = tree_ref(s, v)
    # compare structure and keys (flags are the client's)
    got_tree = list(o["tree"])
    if _strip_flags(s, got_tree) != _strip_flags(s, exp_tree):
        return "decoded account set differs from what the client passed (order / count / presence)"
    if o["validate"][0] != 0:
        return ("validation of the client's own metas fails with %s: flags [%s] are not sufficient (required [%s])"
                % (o["validate"][1], _m(o["metas"]), _m(ref)))
    if o["dispatch"][0] != 0 or not o["reached"]:
        return "the program's entry path rejected the client instruction (%s)" % (o["dispatch"],)
    if not o["same"]:
        return "entry path decoded a different account set than decode_accounts"
    if o["cpi_built"]:
        n = len(ref)
        static = o["declared_len"] != 100
        if o["cpi"][0] != 0:
            if n > 64 and o["cpi"][0] == 2:
                return None              # more accounts than the 64-entry CPI arrays: a panic, by design
            return "a CPI built from the decoded account set failed (%s) although the client instruction is accepted" % (o["cpi"],)
        if [m[0] for m in o["cpi_metas"]] != [m[0] for m in o["metas"]] or list(o["cpi_infos"]) != [m[0] for m in o["metas"]]:
            return "CPI keys [%s] / infos %s differ from the client metas [%s]" % (_m(o["cpi_metas"]), o["cpi_infos"], _m(o["metas"]))
        if o["cpi_metas"] != o["metas"]:
            return "CPI flags [%s] differ from the client flags [%s]" % (_m(o["cpi_metas"]), _m(o["metas"]))
        for got, need in zip(o["cpi_metas"], ref):
            if got[1] > need[1] or got[2] > need[2]:
                return "CPI asks for a privilege the account set does not require: %s vs required %s" % (got, need)
        if static and len(o["cpi_metas"]) != o["declared_len"]:
            return "CPI wrote %d accounts, declared %d" % (len(o["cpi_metas"]), o["declared_len"])
        if not o["cpi_data_same"] or o["cpi_program"] != PROG:
            return "CPI data / program differ from the client instruction"
    if o.get("over_privileged") == 0:
        return ("the CPI built from the account set changes when the caller's accounts hold more privileges than the set "
                "declares (signer + writable everywhere): CPI metas must come from the account set, like the client metas")
    if o.get("over_privileged") == -1:
        return "the program rejects its own instruction when the accounts hold more privileges than the metas ask for"
    if o.get("other_state") == 0:
        return ("decode / CPI views change with the accounts' balance, owner or data (same keys and flags): they must speak about "
                "keys and flags only")
    if o.get("other_state") == -1:
        return "the program rejects its own instruction when the accounts hold no lamports / have a foreign owner / carry data"
    return None


def _judge_phases(lay, vals, o):
    """each phase of the entry path receives exactly the field(s) marked for it (every phase records the argument it is
    handed: the decode expressions of the Vec fields, extra_validation, the handler, extra_cleanup)"""
    exp = expected_phases(lay, vals)
    got = o.get("phases")
    if got is None:
        return "the harness did not record the arguments the phases received"
    complete = o["dispatch"][0] == 0
    for i, g in enumerate(got):
        if i >= len(exp) or g != exp[i]:
            ph = PHASES[g[0]] if 0 <= g[0] < 4 else "?"
            want = [x for p, x in exp if p == g[0]]
            return ("the %s phase received %s but the field(s) marked #[ix_args(%s)] of %s hold %s: instruction fields %s, "
                    "phases received %s, marked %s"
                    % (ph, g[1], ph, show_layout(lay), want, vals, _ph(got), _ph(exp)))
    if complete and len(got) != len(exp):
        return ("the entry path succeeded but not every phase received its marked field: fields %s of %s, phases received %s, "
                "marked %s" % (vals, show_layout(lay), _ph(got), _ph(exp)))
    return None


def _ph(log):
    return "[%s]" % ", ".join("%s=%s" % (PHASES[p] if 0 <= p < 4 else p, x) for p, x in log)


def _strip_flags(s, t):
    """tree with the flag bits removed (keys, presence, lengths)"""
    r = _Rd(t)
    out = []

    def go(s):
        k = s[0]
        if k in ("leaf", "prog", "sysv"):
            out.append(r.take(3)[0])
        elif k == "opt":
            t = r.next()
            out.append(t)
            if t:
                go(s[1])
        elif k == "box":
            go(s[1])
        elif k in ("vec", "rest", "arr"):
            n = r.next()
            out.append(n)
            for _ in range(n):
                go(s[1] if k != "arr" else s[2])
        else:
            for f in s[2]:
                go(f)
    go(s)
    return out


RULE = ("%d account-set shapes (plain / Signer / Mut / both orders / MaybeSigner<false> / MaybeMut<false> layers, Program, "
        "Sysvar, Option, Vec with decode length, arrays 0..63, Box, Rest, nested structs, two levels of nesting) each with its "
        "own derived instruction in one InstructionSet; per shape well-formed client values (all present/absent choices, "
        "lengths 0..3, 64/65 for the CPI array bound) and 'wild' values (program-id keys, wrong lengths, overridden "
        "Program/Sysvar addresses) x six borsh argument types (named-field argument structs, one decode and one run field); %d further instructions over two Vec-carrying shapes whose argument struct routes SINGLE u8 FIELDS to the four phases (#[ix_args(decode / validate / run / &run / cleanup)]): tuple structs and their named-field controls, with an un-annotated field first, annotated fields in non-declaration phase order, an annotated field between two un-annotated ones, several fields per phase, one field for two phases, the whole struct to the handler; field values pairwise different; every phase records the argument it is handed (decode expression of the Vec fields, extra_validation, the handler, extra_cleanup) and must receive exactly the field(s) marked for it, in declaration order (judged by the predicate on the implementation; the Coq model takes the decode argument as given and does not speak about argument splitting); every instruction that reaches its handler is run again with signer + writable on every account, and again with accounts in another state (no lamports, foreign owner, data): the CPI view and the decoded tree must not change. non-trivial = a well-formed value with valid addresses "
        "(all three views are judged)" % (NBASE, len(LAYOUTS)))
TRUSTED = [
    "Coq 8.16.1 kernel", "extraction (ExtrOcamlBasic only) + runner/driver.ml",
    "harness/src/bin/vh_c14.rs generated from lib/props/c14.py by tools/gen_c14_harness.py (fixed family of derived "
    "AccountSet / InstructionArgs / InstructionSet types, native AccountInfo builder, CPI hook of star_frame::verif_hooks)",
    "tools/gen_constants.py (error codes)",
]
ASSUMPTIONS = [
    "keys are abstract integers in the model; the harness maps ids to 32-byte keys ([id; 32], the two sysvar ids)",
    "runtime accounts carry exactly the signer / writable bits of the client metas (no merging of duplicate keys)",
    "single accounts are AccountInfo under MaybeSigner / MaybeMut layers, Program<T>, Sysvar<T>; owner / discriminant "
    "checks of Account<T> are C08, other modifiers C09",
    "the derive templates (AccountSet, InstructionArgs, InstructionSet) are exercised on the fixed family of the harness; "
    "the model mirrors the templates, rustc's macro expansion is not modelled",
    "instruction arguments (borsh) are judged on the implementation only (client bytes vs an independent encoder, and the "
    "arguments the program's process() receives); they are not part of the Coq model",
    "the routing of argument fields to phases (InstructionArgs::split_to_args) is judged on the implementation only: the model's "
    "decode takes the lengths the client put in the decode-marked fields; an entry path that decodes with another field shows "
    "up as a direct property failure (phase log) and as a disagreement with the model; argument fields of the layouts are "
    "u8, phases are observed through hooks written in the account set's own attributes (decode arg expressions, "
    "extra_validation, extra_cleanup) and in process()",
    "sets whose AccountLen is 64..99 or above 100 have no CPI (HandleCpiArray is not implemented: compile error); a "
    "dynamic CPI with more than 64 accounts panics on an indexed write (modelled as Panic)",
]


def _lens_for(rng, s, hi=3, distinct=False):
    while True:
        lens = [rng.range(0, hi) for _ in range(nvec(s))]
        if not distinct or len(set(lens)) == len(lens):
            return lens


def gen_cases(rng, tier):
    cases = []
    n = 0

    def add(sidx, lens, val):
        nonlocal n
        lay = layout_of(sidx)
        ex = gen_extra(rng, sidx % 6) if lay is None else gen_layout_extra(rng, lay, lens)
        cases.append(("g%d" % n, make_case(sidx, lens, val, ex)))
        n += 1

    per_wf, per_wild = (12, 6) if tier == "quick" else (200, 100)
    for sidx in range(len(FAMILY)):
        s = top(sidx)
        big = declared_len(s) >= 60 and nvec(s) == 0
        for k in range(2 if big else per_wf):
            lens = _lens_for(rng, s, distinct=sidx >= NBASE)
            add(sidx, lens, gen_value(rng, s, lens, [0], "wf"))
        for k in range(1 if big else per_wild):
            lens = _lens_for(rng, s, distinct=sidx >= NBASE)
            add(sidx, lens, gen_value(rng, s, lens, [0], "wild"))
    # the bound of the dynamic CPI arrays
    for ln in (63, 64, 65):
        s = top(9)
        add(9, [ln], gen_value(rng, s, [ln], [0], "wf"))
    return cases


def describe(c):
    d = decode_case(c)
    lay = layout_of(d["sidx"])
    out = _describe(d)
    if lay is not None:
        vals = layout_values(lay, d["lens"], d["extra"])
        out["argument_struct"] = show_layout(lay)
        out["argument_fields"] = vals
        out["marked_for_phases"] = _ph(expected_phases(lay, vals))
    return out


def _describe(d):
    return {"shape_index": d["sidx"], "shape": show(d["shape"]), "vec_lengths": d["lens"], "client_value": _pv(d["val"]),
            "extra_args": d["extra"], "well_formed": wf(d["shape"], d["val"], d["lens"], 0, True),
            "addresses_valid": keys_valid(d["shape"], d["val"])}


def _pv(v):
    if v[0] == "k":
        return v[1]
    if v[0] == "ok":
        return "default" if v[1] is None else "addr %s" % v[1]
    if v[0] == "o":
        return None if v[1] is None else {"some": _pv(v[1])}
    return [_pv(x) for x in v[1]]


def nontrivial(c, obs):
    d = decode_case(c)
    return bool(obs) and obs[0] != "UNPARSEABLE" and obs[0] >= 0 and wf(d["shape"], d["val"], d["lens"], 0, True) \
        and keys_valid(d["shape"], d["val"])


def distribution(cases, impl):
    from collections import Counter
    a = Counter()
    b = Counter()
    for cid, c in cases:
        d = decode_case(c)
        w = wf(d["shape"], d["val"], d["lens"], 0, True) and keys_valid(d["shape"], d["val"])
        a["well-formed" if w else "ambiguous-or-invalid"] += 1
        lay = layout_of(d["sidx"])
        if lay is not None:
            a["field-routed arguments (%s struct)" % ("tuple" if lay["tuple"] else "named")] += 1
        try:
            o = parse_obs(d["shape"], impl.get(cid) or [])
            b["decode %s" % ("ok" if o["decode"][0] == 0 else o["decode"][1])] += 1
            b["entry %s" % ("ok" if o["dispatch"][0] == 0 else o["dispatch"][1])] += 1
            if o.get("cpi_built"):
                b["cpi %s" % {0: "ok", 1: "err %s" % o["cpi"][1], 2: "panic"}[o["cpi"][0]]] += 1
            a["metas:%d" % min(len(o["metas"]), 10)] += 1
        except (IndexError, KeyError, TypeError):
            b["unparsed"] += 1
    return {"values": dict(a), "outcomes": dict(b)}


def matches_known(entry, c, obs):
    return False
