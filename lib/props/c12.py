"""C12 - account initialization creates exactly what was asked and conserves lamports."""
from . import _rent as R

ID = "C12"
ENTRY = "c12"
GROUP = "rent"
BIN = "vh_c12"
COQ_TARGETS = ["Properties/C12.vo"]

# account kinds of harness/src/bin/vh_c12.rs : (discriminant bytes, borsh?, default-init body)
KINDS = {
    0: {"name": "Account<Fix> (pod, 8-byte discriminant)", "disc": [1, 2, 3, 4, 5, 6, 7, 8], "borsh": False, "default": [0] * 13},
    1: {"name": "Account<Uns> (unsized: u16 + List<u8>)", "disc": [9, 8, 7, 6, 5, 4, 3, 2], "borsh": False, "default": [0] * 6},
    2: {"name": "BorshAccount<Bo> (Vec<u8>)", "disc": [0xB0, 0, 0, 0, 0, 0, 0, 1], "borsh": True, "default": [0, 0, 0, 0]},
    3: {"name": "Account<Fix1> (pod, 1-byte discriminant)", "disc": [0xA5], "borsh": False, "default": [0] * 3},
    4: {"name": "Account<FixZ> (pod, a discriminant containing zero bytes)", "disc": [7, 0, 0, 0, 0, 0, 0, 0], "borsh": False, "default": [0] * 13},
}
E_FUNDS = 6 << 32
# D10: create-if-needed on a foreign-owned account whose data is shorter than the discriminant panics (slice index) in the
# shipped needs_init test.  The property's text says nothing about that target state (it is not an initialised account and
# nothing is modified: a panic aborts the transaction like an error does), so by default it is recorded (distribution key
# "D10 panic", theorem C12_if_needed_short_refuted) but not a violation.  Set to True to judge it inside the property;
# proposed/C12-if-needed-short-data.patch turns it into an error either way (model flag SHORT_FIXED follows the source).
D10_STRICT = False

RULE = ("seeded random product, every axis forced: account kind {pod w=8, unsized w=8, borsh Vec w=8, pod w=1} x Create/CreateIfNeeded x "
        "{Init<Signer<_>>, Init<Seeded<_>> with Seeds, with SeedsWithBump (right / wrong bump)} x argument form {(), (&funder,), "
        "|| value, (|| value, &funder)} x funder {Mut<Signer>, Mut<Seeded<SystemAccount>>, Signer<Mut<SystemAccount>>} x funder "
        "cached or not x target state {fresh, pre-funded 1 / below / min-1 / min / min+1 / far above, program-owned with zero or set "
        "discriminant (also with 0 lamports), third-party owned (zero, set, shorter than the discriminant), system-owned with data} x "
        "funder state {rich, exactly the shortfall, one lamport short, non-system owner, has data, not signer, not writable} x rent "
        "{lamports_per_byte 0,1,3480,6960,10^9} x threshold {1.0, 2.0} x seed shapes (empty list, trailing empty seed or not, 1-4 seeds) "
        "x address matches / does not match; plus the D5 witness. non-trivial = the validation reached the system program (a CPI was "
        "attempted) or skipped initialisation of an initialised account")
TRUSTED = [
    "Coq 8.16.1 kernel", "extraction (ExtrOcamlBasic only) + runner/driver.ml",
    "harness/src/bin/vh_c12.rs + harness/src/rent_sim.rs (system-program simulator = coq/Rent/Ledger.v sys_exec, an oracle) + native AccountInfo builder",
    "hooks H1 (CPI interception) / H2 (Rent injection) in /repo behind --cfg star_frame_verif",
    "lib/props/_rent.py (program-derived addresses recomputed in Python: sha256 + ed25519 decompression test)",
    "tools/gen_constants.py, tools/gen_extra_c12.py (error codes; which top-up / needs_init form the source has)",
]
ASSUMPTIONS = [
    "the system program and the runtime's CPI privilege rules are an oracle (coq/Rent/Ledger.v), stated once and shared with the harness",
    "min_balance is any function into u64; create_program_address / find_program_address are oracles related by find s = (k,b) -> create (with_bump s b) = k",
    "every balance and the total supply are below 2^64; the funder is an account other than the one being created",
    "create-if-needed on a foreign-owned account shorter than the discriminant (D10: panic in the shipped form) is outside the property's text unless D10_STRICT is set",
    "the body written by T::init / held by BorshAccount is the encoding of the initial value (C05 / C15); BorshAccount bytes are persisted at cleanup",
]


# ----------------------------------------------------------------------------------------------
def build(p):
    """p: dict of scenario parameters -> case ints"""
    tseeds, fseeds = p["tseeds"], p["fseeds"]
    findt = R.find_pda(tseeds)
    findf = R.find_pda(fseeds)
    table = []
    for sd, b in ((tseeds, findt[1]), (tseeds, p["tbump"]), (fseeds, findf[1])):
        wb = R.with_bump(sd, b)
        if wb not in [t[0] for t in table]:
            table.append((wb, R.create_pda(wb)))
    c = [p["kind"], p["mode"], p["seeded"], p["argform"], p["fkind"], p["cache"], p["lpby"], p["mult"]]
    c += R.enc_acc(**p["funder"]) + R.enc_acc(**p["target"])
    c += R.enc_seeds(tseeds) + [p["tbump"]] + R.enc_seeds(fseeds)
    c += findt[0] + [findt[1]] + findf[0] + [findf[1]]
    c += [len(table)]
    for sd, res in table:
        c += R.enc_seeds(sd) + ([0] + [0] * 32 if res is None else [1] + res)
    c += R.enc_bytes(p["ival"])
    return c


def decode(c):
    cur = R.Cur(c)
    p = {}
    for k in ("kind", "mode", "seeded", "argform", "fkind", "cache", "lpby", "mult"):
        p[k] = cur.next()
    p["funder"] = R.dec_acc(cur)
    p["target"] = R.dec_acc(cur)
    p["tseeds"] = R.dec_seeds(cur)
    p["tbump"] = cur.next()
    p["fseeds"] = R.dec_seeds(cur)
    p["findt"] = (cur.take(32), cur.next())
    p["findf"] = (cur.take(32), cur.next())
    n = cur.next()
    p["table"] = []
    for _ in range(n):
        sd = R.dec_seeds(cur)
        res = cur.next()
        k = cur.take(32)
        p["table"].append((sd, k if res else None))
    p["ival"] = R.dec_bytes(cur)
    return p


def init_body(p):
    """the bytes the initial value encodes to"""
    k = KINDS[p["kind"]]
    if p["argform"] in (0, 1) or p["kind"] == 1:
        return list(k["default"])
    if p["kind"] == 2:
        n = len(p["ival"])
        return [n & 255, (n >> 8) & 255, (n >> 16) & 255, (n >> 24) & 255] + list(p["ival"])
    size = len(k["default"])
    return (list(p["ival"]) + [0] * size)[:size]


def gen_seeds(rng):
    shape = rng.below(8)
    if shape == 0:
        return []
    n = rng.range(1, 4)
    sd = [rng.bytes(rng.choice([0, 1, 1, 3, 8, 32]) or 1) for _ in range(n)]
    if shape <= 4:
        sd.append([])            # the derive macro's convention: trailing empty seed
    return sd


def scenario(rng):
    p = {}
    p["kind"] = rng.weighted([(0, 4), (1, 2), (2, 3), (3, 2), (4, 2)])
    k = KINDS[p["kind"]]
    w = len(k["disc"])
    p["mode"] = rng.below(2)
    p["seeded"] = rng.weighted([(0, 4), (1, 4), (2, 2)])
    p["argform"] = rng.below(4)
    p["fkind"] = rng.weighted([(0, 5), (1, 3), (2, 2)])
    p["cache"] = 1 if rng.chance(19, 20) else 0
    if p["argform"] in (1, 3) and rng.chance(1, 2):
        # an explicit funder with nothing cached, or with ANOTHER (rich) account cached: the explicit one has to pay
        p["cache"] = rng.choice([0, 2, 2])
    p["lpby"] = rng.weighted([(3480, 5), (6960, 2), (1, 2), (0, 1), (10 ** 9, 1)])
    p["mult"] = rng.choice([2, 2, 1])
    p["ival"] = rng.bytes(rng.choice([0, 1, 5, 13, 40]) if p["kind"] == 2 else len(k["default"]))
    body = init_body(p)
    space = w + len(body)
    minb = R.min_balance(p["lpby"], p["mult"], space)
    # seeds and keys
    p["tseeds"] = gen_seeds(rng)
    p["fseeds"] = gen_seeds(rng)
    # different addresses (an empty seed does not change the hash: [[35]] and [[35], []] derive the same key)
    while [x for x in p["fseeds"] if x] == [x for x in p["tseeds"] if x]:
        p["fseeds"] = gen_seeds(rng) + [[7]]
    tfind = R.find_pda(p["tseeds"])
    ffind = R.find_pda(p["fseeds"])
    p["tbump"] = tfind[1]
    tkey = [4] * 32
    if p["seeded"]:
        tkey = tfind[0]
        r = rng.below(10)
        if r == 0:
            tkey = rng.bytes(32)                       # address does not match the seeds
        elif r == 1 and p["seeded"] == 2:
            p["tbump"] = rng.below(256)                # a different bump (other address or on the curve)
    fkey = [3] * 32
    if p["fkind"] == 1:
        fkey = ffind[0] if rng.chance(19, 20) else rng.bytes(32)
    # target state
    st = rng.below(16)
    owner, data, lam = R.SYS, [], 0
    if st <= 2:
        pass
    elif st == 3:
        lam = rng.choice([1, max(1, minb // 2), max(1, minb - 1)])
    elif st == 4:
        lam = minb
    elif st == 5:
        lam = minb + 1
    elif st == 6:
        lam = minb + rng.choice([2, 1000, 10 ** 12])
    elif st == 7:
        owner, data, lam = R.PROG, [0] * space, rng.choice([minb, minb, 0, 5])
    elif st in (8, 9):
        owner, data, lam = R.PROG, k["disc"] + body, rng.choice([minb, minb, minb + 7, max(minb - 1, 0), 0])
        if rng.chance(1, 4):
            data = k["disc"] + (rng.bytes(len(body)) if p["kind"] != 2 else body)
    elif st == 10:
        owner, lam = R.THIRD, rng.choice([minb, 1, 0])
        data = rng.bytes(w) + ([0, 0, 0, 0] if p["kind"] == 2 else rng.bytes(rng.range(0, 12)))
    elif st == 11:
        owner, lam = R.THIRD, rng.choice([minb, 1, 0])
        data = rng.bytes(rng.range(0, w - 1))          # shorter than the discriminant
    elif st == 12:
        owner, lam, data = R.SYS, rng.choice([0, minb]), [0] * rng.choice([1, space])
    elif st == 13:
        owner, lam, data = R.THIRD, rng.choice([minb, 0]), [0] * rng.choice([w, space])
    elif st == 14:
        owner, lam, data = R.PROG, minb, k["disc"]     # exactly the discriminant
    else:
        owner, lam, data = R.PROG, minb, rng.bytes(rng.range(0, w - 1))
    tsigner = (p["seeded"] == 0) if rng.chance(14, 15) else rng.chance(1, 2)
    twritable = rng.chance(19, 20)
    p["target"] = dict(key=tkey, owner=owner, lamports=lam, signer=tsigner, writable=twritable, data=data)
    # funder state
    need = max(0, minb - lam)
    fs = rng.below(48)
    fown, fdata, flam = R.SYS, [], need + rng.choice([1, 1, 10 ** 9, 10 ** 9, 10 ** 15])
    fsigner, fwritable = p["fkind"] != 1, True
    if fs == 0:
        flam = max(0, need - 1)
    elif fs == 1:
        flam = need
    elif fs == 2:
        fown = R.THIRD
    elif fs == 3:
        fdata = [1, 2, 3]
    elif fs == 4:
        fsigner = not fsigner
    elif fs == 5:
        fwritable = False
    elif fs == 6:
        flam = R.U64 - lam - rng.below(3)              # supply right below 2^64
    p["funder"] = dict(key=fkey, owner=fown, lamports=min(flam, R.U64 - lam), signer=fsigner, writable=fwritable, data=fdata)
    return p


def d5_witness():
    """pre-funded with exactly the minimum: the shipped top-up takes 1 lamport from the funder"""
    p = dict(kind=0, mode=0, seeded=0, argform=3, fkind=0, cache=0, lpby=3480, mult=2, tseeds=[], fseeds=[[1]], tbump=255,
             ival=[5, 0, 0, 0, 0, 0, 0, 0, 1, 2, 3, 4, 5])
    minb = R.min_balance(3480, 2, 21)
    p["target"] = dict(key=[4] * 32, owner=R.SYS, lamports=minb, signer=True, writable=True, data=[])
    p["funder"] = dict(key=[3] * 32, owner=R.SYS, lamports=10 ** 9, signer=True, writable=True, data=[])
    return p


def gen_cases(rng, tier):
    cases = []                                  # the D5 / D10 witnesses live in corpus/C12/ and run first
    # a borsh value too large for the CPI growth limit of the simulated runtime
    p = d5_witness()
    p["kind"], p["argform"], p["ival"] = 2, 3, [7] * 10300
    p["target"]["lamports"] = 0
    p["funder"]["lamports"] = 10 ** 12
    cases.append(("big", build(p)))
    n = 3400 if tier == "quick" else 60000
    for i in range(n):
        cases.append(("r%d" % i, build(scenario(rng))))
    return cases


# ----------------------------------------------------------------------------------------------
def parse_obs(obs):
    if not obs or obs[0] == "UNPARSEABLE" or obs[0] < 0:
        return None
    tag = obs[0]
    if tag != 0:
        return {"tag": tag, "code": obs[1] if len(obs) > 1 else None}
    cur = R.Cur(obs)
    cur.next()
    o = {"tag": 0, "needed_init": cur.next()}
    o["funder"] = R.dec_acc_obs(cur)
    o["target"] = R.dec_acc_obs(cur)
    h = cur.next()
    o["held"] = None if h < 0 else cur.take(h)
    o["log"] = R.dec_log(cur)
    return o


def initialized(p):
    """already initialised: not system-owned and a non-zero discriminant-sized prefix"""
    w = len(KINDS[p["kind"]]["disc"])
    t = p["target"]
    return t["owner"] != R.SYS and len(t["data"]) >= w and any(b != 0 for b in t["data"][:w])


def must_succeed(p):
    """a deliberately narrow sufficient condition under which the property demands a creation: the plain wrapper
    (Init<Signer<_>>), a funder that is handed over or cached, both accounts distinct, signing, writable, system-owned and
    without data, the funder able to pay the whole minimum; the target may already hold lamports (pre-funded)"""
    k = KINDS[p["kind"]]
    t, f = p["target"], p["funder"]
    if p["seeded"] != 0 or p["fkind"] != 0:
        return False
    if not (p["argform"] in (1, 3) or p["cache"]):
        return False
    for a in (t, f):
        if not (a["signer"] and a["writable"] and a["owner"] == R.SYS and len(a["data"]) == 0):
            return False
    if t["key"] == f["key"]:
        return False
    space = len(k["disc"]) + len(init_body(p))
    minb = R.min_balance(p["lpby"], p["mult"], space)
    # (an account larger than the runtime's per-instruction growth limit cannot be created through a CPI)
    return space <= 10240 and f["lamports"] >= minb and t["lamports"] + minb < 2 ** 63 and f["lamports"] < 2 ** 63


def must_keep(p):
    """a deliberately narrow sufficient condition under which CreateIfNeeded has to accept an EXISTING account untouched:
    plain wrapper, fixed-size zero-copy type, program-owned, its own discriminant, exactly the type's size, signing and
    writable, and a usable funder at hand (handed over or cached) although it is not needed"""
    k = KINDS[p["kind"]]
    t, f = p["target"], p["funder"]
    if p["mode"] != 1 or p["seeded"] != 0 or p["fkind"] != 0 or p["kind"] not in (0, 3, 4):
        return False
    if not (p["argform"] in (1, 3) or p["cache"] == 1):
        return False
    w = len(k["disc"])
    if t["owner"] != R.PROG or t["data"][:w] != k["disc"] or len(t["data"]) != w + len(k["default"]):
        return False
    if not (t["signer"] and t["writable"] and f["signer"] and f["writable"] and f["owner"] == R.SYS and not f["data"]):
        return False
    return t["key"] != f["key"]


def d10_class(p):
    w = len(KINDS[p["kind"]]["disc"])
    return p["mode"] == 1 and p["target"]["owner"] != R.SYS and len(p["target"]["data"]) < w


def predicate(c, obs):
    o = parse_obs(obs)
    if o is None:
        return "no observation from the implementation (%s)" % (obs,)
    p = decode(c)
    k = KINDS[p["kind"]]
    w = len(k["disc"])
    t0, f0 = p["target"], p["funder"]
    if o["tag"] == 2:
        if d10_class(p) and not D10_STRICT:
            return None
        return "panic during Init validation (an error was expected at worst)"
    if o["tag"] != 0:
        if o["tag"] in (1, 3, 4) and must_keep(p):
            return ("create-if-needed was refused (%s) on an account that is already initialised (program-owned, its own "
                    "discriminant, the type's exact size): it has to be left alone and accepted" % (obs[:2],))
        if o["tag"] in (1, 3, 4) and must_succeed(p):
            return ("initialisation of a fresh system account was refused (%s) although target and funder are signers, writable, "
                    "system-owned and empty and the funder holds the whole rent-exempt minimum" % (obs[:2],))
        return None if o["tag"] in (1, 3, 4) else "malformed observation"
    t1, f1 = o["target"], o["funder"]
    # conservation, whatever happened
    if t1["lamports"] + f1["lamports"] != t0["lamports"] + f0["lamports"]:
        return "lamports not conserved: %d + %d before, %d + %d after" % (f0["lamports"], t0["lamports"], f1["lamports"], t1["lamports"])
    if p["mode"] == 0 and t0["owner"] != R.SYS:
        return "'create' succeeded on an account that is not a fresh system account (owner already set)"
    if p["mode"] == 0 and len(t0["data"]) > 0:
        return "'create' succeeded on an account that already has data"
    if p["mode"] == 0 and not o["needed_init"]:
        return "'create' reported needed_init = false"
    if p["mode"] == 1 and initialized(p):
        if o["needed_init"]:
            return "create-if-needed re-initialised an already initialised account"
        if t1["data"] != t0["data"] or t1["lamports"] != t0["lamports"] or f1["lamports"] != f0["lamports"] or o["log"]:
            return "create-if-needed touched an already initialised account"
        return None
    if not o["needed_init"]:
        # skipped although not initialised by our definition: must at least be untouched
        if t1["data"] != t0["data"] or t1["lamports"] != t0["lamports"] or o["log"]:
            return "initialisation reported as skipped but the account changed"
        return None
    # a creation happened: the postconditions of the property
    body = init_body(p)
    space = w + len(body)
    minb = R.min_balance(p["lpby"], p["mult"], space)
    if t1["owner"] != 1:
        return "created account is not owned by the program"
    if len(t1["data"]) != space:
        return "created account has %d bytes, the initial value needs %d" % (len(t1["data"]), space)
    if t1["data"][:w] != k["disc"]:
        return "created account does not start with the discriminant"
    if k["borsh"]:
        if o["held"] != body:
            return "borsh-backed account does not hold the initial value"
    elif t1["data"][w:] != body:
        return "created account body %s is not the initial value %s" % (t1["data"][w:], body)
    if t1["lamports"] < minb:
        return "created account holds %d lamports, below the rent-exempt minimum %d" % (t1["lamports"], minb)
    debit = f0["lamports"] - f1["lamports"]
    short = max(0, minb - t0["lamports"])
    if debit != short:
        return "funder was debited %d lamports, the shortfall is %d (minimum %d, account held %d)" % (debit, short, minb, t0["lamports"])
    # a funder that is a program-derived address can only sign through its seeds: every CPI that lists it as a signer
    # carries them (the runtime refuses the instruction otherwise)
    if p["fkind"] == 1:
        want_f = R.with_bump(p["fseeds"], p["findf"][1])
        for cpi in o["log"]:
            if any(m[0] == 2 and m[1] for m in cpi["metas"]) and want_f not in cpi["seeds"]:
                return "CPI %d lists the seeded funder as a signer but is signed with %s, not with the funder's seeds %s" % (
                    cpi["ix"], cpi["seeds"], want_f)
    # seeds used to sign the creation
    if p["seeded"]:
        bump = p["findt"][1] if p["seeded"] == 1 else p["tbump"]
        want = R.with_bump(p["tseeds"], bump)
        if R.create_pda(want) != t0["key"]:
            return "seeded account accepted although its address is not derived from the given seeds"
        signed = [cpi for cpi in o["log"] if (3, 1, 1) in cpi["metas"]]
        if not signed:
            return "no CPI signed for the created account"
        for cpi in signed:
            if want not in cpi["seeds"]:
                return "CPI %d signed with %s, the validated seeds with bump are %s" % (cpi["ix"], cpi["seeds"], want)
    return None


def comparable(c):
    """funder and target are different accounts (the property's domain; two native accounts sharing a key cannot be one ledger entry)"""
    p = decode(c)
    return p["funder"]["key"] != p["target"]["key"]


def describe(c):
    p = decode(c)
    k = KINDS[p["kind"]]
    body = init_body(p)
    space = len(k["disc"]) + len(body)
    return {
        "account_kind": k["name"], "mode": ["Create", "CreateIfNeeded"][p["mode"]],
        "wrapper": ["Init<Signer<_>>", "Init<Seeded<_>> + Seeds", "Init<Seeded<_>> + SeedsWithBump"][p["seeded"]],
        "arg_form": ["()", "(&funder,)", "|| value", "(|| value, &funder)"][p["argform"]],
        "funder_kind": ["Mut<Signer>", "Mut<Seeded<SystemAccount>>", "Signer<Mut<SystemAccount>>"][p["fkind"]],
        "funder_cache": ["empty", "the funder", "ANOTHER account (a rich signer)"][p["cache"]], "lamports_per_byte_year": p["lpby"], "exemption_threshold": float(p["mult"]),
        "space": space, "min_balance": R.min_balance(p["lpby"], p["mult"], space),
        "funder": p["funder"], "target": p["target"], "target_seeds": p["tseeds"], "bump_arg": p["tbump"],
        "funder_seeds": p["fseeds"], "initial_value_bytes": body,
    }


def nontrivial(c, obs):
    o = parse_obs(obs)
    if o is None:
        return False
    if o["tag"] == 0:
        return True
    return o["tag"] == 1 and o["code"] not in (1000, 1001, 1002, 1004)


def shrink(c):
    p = decode(c)

    def rebuilt(**kw):
        q = {k: p[k] for k in ("kind", "mode", "seeded", "argform", "fkind", "cache", "lpby", "mult", "tseeds", "tbump", "fseeds", "ival",
                               "funder", "target")}
        q.update(kw)
        return build(q)
    if p["seeded"] == 0 and p["tseeds"]:
        yield rebuilt(tseeds=[])
    if p["fkind"] != 1 and p["fseeds"] != [[1]]:
        yield rebuilt(fseeds=[[1]])
    if p["cache"]:
        if p["argform"] in (1, 3):
            yield rebuilt(cache=0)
    if p["funder"]["lamports"] > 10 ** 9:
        f = dict(p["funder"])
        f["lamports"] = 10 ** 9
        yield rebuilt(funder=f)
    if p["mult"] == 1:
        yield rebuilt(mult=2)


def distribution(cases, impl):
    from collections import Counter
    cn = Counter()
    for cid, c in cases:
        p = decode(c)
        o = parse_obs(impl.get(cid)) or {"tag": -1}
        cn["kind=%d" % p["kind"]] += 1
        cn["mode=%s" % ["create", "if_needed"][p["mode"]]] += 1
        cn["seeded=%d" % p["seeded"]] += 1
        cn["funder_kind=%d" % p["fkind"]] += 1
        if o["tag"] == 0:
            cn["ok needed_init=%d" % o["needed_init"]] += 1
            for cpi in o["log"]:
                cn["cpi ix=%d" % cpi["ix"]] += 1
        elif o["tag"] == 1:
            cn["err %s" % o["code"]] += 1
        elif o["tag"] == 2 and d10_class(p):
            cn["D10 panic (create-if-needed, foreign owner, data shorter than the discriminant)"] += 1
        else:
            cn["tag %d" % o["tag"]] += 1
    return dict(cn)


def matches_known(entry, c, obs):
    o = parse_obs(obs)
    if o is None:
        return False
    p = decode(c)
    w = len(KINDS[p["kind"]]["disc"])
    if entry.get("id") == "D10":
        return o["tag"] == 2 and d10_class(p)
    return False
