"""C18 - the IDL verifier accepts exactly the structurally sound definition graphs.

A case is the integer encoding of (mode, definition set) documented in coq/Idl/Verifier.v (decode_case).
`predicate` decides soundness of the decoded set directly (an independent implementation of the *specification*:
enumerate every reference / shape position, judge each one) and compares with the verdict of the real verifier.
"""
import copy
import os
import subprocess

ID = "C18"
ENTRY = "c18"
GROUP = "idlv"
BIN = "vh_c18"
COQ_TARGETS = ["Properties/C18.vo"]

RULE = ("quick: ~9k cases sampled (seeded) from the exhaustive small universe + random larger graphs + single-edit mutants "
        "of the shipped System / Token / Associated-Token IDLs; thorough: the whole universe (~4*10^5 sets). Universe: "
        "<=3 definitions (namespace lists incl. empty / whitespace-only / padded / duplicate names, both orders), a current "
        "definition with types, external types, account sets, accounts, instructions; ONE focus reference or shape placed "
        "at every reference position (type body, external type body, account type id and its generics, seed type, "
        "instruction type id and generics, account-set type generics at nesting depth <=3, every IdlTypeDef constructor "
        "slot as wrapper chain of length <=2; account-set refs / account refs / Many / Or under Struct, Many, Or and "
        "account-generic nesting <=2) x every (source, namespace, arity) choice (local / external / other namespace only / "
        "missing / shadowed with different arity; namespace None / self / other / missing / untrimmed / padded-definition) "
        "x both modes; plus all pairs of two violations at top-level positions (first-error order). "
        "non-trivial = at least one reference position and (accepted or at most two violating positions)")
TRUSTED = [
    "Coq 8.16.1 kernel", "extraction (ExtrOcamlBasic only) + runner/driver.ml",
    "harness/src/bin/vh_c18.rs (case decoder building the real star_frame_idl structs; rule id parsed from `[SFIDLnnn]`)",
    "tools/gen_extra_c18.py (rule ids, mode names)", "lib/props/c18.py (generator, independent soundness oracle)",
    "case decoder decode_case in coq/Idl/Verifier.v (not covered by the theorems)",
]
ASSUMPTIONS = [
    "strings are sequences of Unicode scalar values below U+D800 in generated cases; str::trim = stripping White_Space",
    "BTreeMap<String,_> = association list with strictly ascending keys (theorems hold for every association list)",
    "fields the verifier never reads are not varied (descriptions, discriminants, flags, find-seeds, addresses, errors)",
    "namespace lookup uses the reference's namespace verbatim against the index of TRIMMED crate names (as the code does)",
    "stack depth: the recursive walk is modelled as total (no stack overflow on very deep definitions)",
]

U64 = (1 << 64) - 1
WS = set(list(range(9, 14)) + [32, 133, 160, 5760] + list(range(8192, 8203)) + [8232, 8233, 8239, 8287, 12288])


# =================================================================================================
# structures (mutable lists):
# tydef : ["prim",k] ["gen",name] ["def",src,ns,[t]] ["fp",t] ["opt",t] ["list",a,b] ["ulist",a,b,c] ["set",a,b]
#         ["map",a,b,c] ["arr",t] ["struct",[t]] ["enum",size,[t|None]]
# asdef : ["adef",src,[t],[a]] ["single",[[ns,src]]] ["astruct",[a]] ["many",a,min,max|None] ["or",[a]]
# def   : {"name":str, "types":[[k,[ngen,t]]], "ext":[...], "sets":[[k,[ntg,nag,a]]],
#          "accounts":[[k,[[src,ns,[t]], seeds|None]]], "instrs":[[k,[[src,ns,[t]], a]]]}   seeds: [["const",[b]] | ["var",t]]
def prim(k=1):
    return ["prim", k]


def tref(src, ns=None, gens=()):
    return ["def", src, ns, list(gens)]


def mkdef(name, types=(), ext=(), sets=(), accounts=(), instrs=()):
    srt = lambda xs: sorted([list(x) for x in xs], key=lambda kv: kv[0])  # noqa: E731
    return {"name": name, "types": srt(types), "ext": srt(ext), "sets": srt(sets), "accounts": srt(accounts),
            "instrs": srt(instrs)}


# ---- encoding ----
def e_name(s, o):
    o.append(len(s))
    o.extend(ord(c) for c in s)


def e_ns(ns, o):
    if ns is None:
        o.append(0)
    else:
        o.append(1)
        e_name(ns, o)


def e_tid(t, o):
    e_name(t[0], o)
    e_ns(t[1], o)
    o.append(len(t[2]))
    for g in t[2]:
        e_ty(g, o)


TTAG = {"fp": 3, "opt": 4, "list": 5, "ulist": 6, "set": 7, "map": 8, "arr": 9}


def e_ty(t, o):
    k = t[0]
    if k == "prim":
        o.extend([0, t[1]])
    elif k == "gen":
        o.append(1)
        e_name(t[1], o)
    elif k == "def":
        o.append(2)
        e_tid(t[1:], o)
    elif k in TTAG:
        o.append(TTAG[k])
        for x in t[1:]:
            e_ty(x, o)
    elif k == "struct":
        o.extend([10, len(t[1])])
        for x in t[1]:
            e_ty(x, o)
    elif k == "enum":
        o.append(11)
        e_ty(t[1], o)
        o.append(len(t[2]))
        for v in t[2]:
            if v is None:
                o.append(0)
            else:
                o.append(1)
                e_ty(v, o)
    else:
        raise ValueError(k)


def e_as(a, o):
    k = a[0]
    if k == "adef":
        o.append(0)
        e_name(a[1], o)
        o.append(len(a[2]))
        for t in a[2]:
            e_ty(t, o)
        o.append(len(a[3]))
        for x in a[3]:
            e_as(x, o)
    elif k == "single":
        o.extend([1, len(a[1])])
        for ns, src in a[1]:
            e_ns(ns, o)
            e_name(src, o)
    elif k == "astruct":
        o.extend([2, len(a[1])])
        for x in a[1]:
            e_as(x, o)
    elif k == "many":
        o.append(3)
        e_as(a[1], o)
        o.append(a[2])
        if a[3] is None:
            o.append(0)
        else:
            o.extend([1, a[3]])
    elif k == "or":
        o.extend([4, len(a[1])])
        for x in a[1]:
            e_as(x, o)
    else:
        raise ValueError(k)


def e_def(d, o):
    e_name(d["name"], o)
    for m in ("types", "ext"):
        o.append(len(d[m]))
        for k, (ng, t) in d[m]:
            e_name(k, o)
            o.append(ng)
            e_ty(t, o)
    o.append(len(d["sets"]))
    for k, (ntg, nag, a) in d["sets"]:
        e_name(k, o)
        o.extend([ntg, nag])
        e_as(a, o)
    o.append(len(d["accounts"]))
    for k, (tid, seeds) in d["accounts"]:
        e_name(k, o)
        e_tid(tid, o)
        if seeds is None:
            o.append(0)
        else:
            o.extend([1, len(seeds)])
            for s in seeds:
                if s[0] == "const":
                    o.extend([0, len(s[1])])
                    o.extend(s[1])
                else:
                    o.append(1)
                    e_ty(s[1], o)
    o.append(len(d["instrs"]))
    for k, (tid, a) in d["instrs"]:
        e_name(k, o)
        e_tid(tid, o)
        e_as(a, o)


def encode(mode, defs):
    o = [mode, len(defs)]
    for d in defs:
        e_def(d, o)
    return o


# ---- decoding (None = malformed) ----
class Bad(Exception):
    pass


class Cur:
    def __init__(self, v):
        self.v = v
        self.i = 0

    def next(self):
        if self.i >= len(self.v):
            raise Bad()
        x = self.v[self.i]
        self.i += 1
        return x


def d_count(c):
    n = c.next()
    if not 0 <= n <= 4096:
        raise Bad()
    return n


def d_name(c):
    n = d_count(c)
    out = []
    for _ in range(n):
        x = c.next()
        if not 0 <= x < 55296:
            raise Bad()
        out.append(chr(x))
    return "".join(out)


def d_opt(c, f):
    x = c.next()
    if x == 0:
        return None
    if x == 1:
        return f(c)
    raise Bad()


def d_u64(c):
    x = c.next()
    if not 0 <= x <= U64:
        raise Bad()
    return x


def d_tid(c):
    src = d_name(c)
    ns = d_opt(c, d_name)
    gens = [d_ty(c) for _ in range(d_count(c))]
    return [src, ns, gens]


RTAG = {v: k for k, v in TTAG.items()}
ARITY = {"fp": 1, "opt": 1, "list": 2, "ulist": 3, "set": 2, "map": 3, "arr": 1}


def d_ty(c):
    t = c.next()
    if t == 0:
        k = c.next()
        if not 0 <= k <= 15:
            raise Bad()
        return ["prim", k]
    if t == 1:
        return ["gen", d_name(c)]
    if t == 2:
        return ["def"] + d_tid(c)
    if t in RTAG:
        k = RTAG[t]
        return [k] + [d_ty(c) for _ in range(ARITY[k])]
    if t == 10:
        return ["struct", [d_ty(c) for _ in range(d_count(c))]]
    if t == 11:
        size = d_ty(c)
        return ["enum", size, [d_opt(c, d_ty) for _ in range(d_count(c))]]
    raise Bad()


def d_as(c):
    t = c.next()
    if t == 0:
        src = d_name(c)
        tg = [d_ty(c) for _ in range(d_count(c))]
        ag = [d_as(c) for _ in range(d_count(c))]
        return ["adef", src, tg, ag]
    if t == 1:
        out = []
        for _ in range(d_count(c)):
            ns = d_opt(c, d_name)
            out.append([ns, d_name(c)])
        return ["single", out]
    if t == 2:
        return ["astruct", [d_as(c) for _ in range(d_count(c))]]
    if t == 3:
        a = d_as(c)
        mn = d_u64(c)
        return ["many", a, mn, d_opt(c, d_u64)]
    if t == 4:
        return ["or", [d_as(c) for _ in range(d_count(c))]]
    raise Bad()


def d_btree(c, f):
    out = []
    for _ in range(d_count(c)):
        k = d_name(c)
        out.append([k, f(c)])
    for a, b in zip(out, out[1:]):
        if not a[0] < b[0]:
            raise Bad()
    return out


def d_seed(c):
    t = c.next()
    if t == 0:
        bs = []
        for _ in range(d_count(c)):
            b = c.next()
            if not 0 <= b < 256:
                raise Bad()
            bs.append(b)
        return ["const", bs]
    if t == 1:
        return ["var", d_ty(c)]
    raise Bad()


def d_def(c):
    name = d_name(c)
    ty = lambda c: [d_count(c), d_ty(c)]  # noqa: E731
    types = d_btree(c, ty)
    ext = d_btree(c, ty)
    sets = d_btree(c, lambda c: [d_count(c), d_count(c), d_as(c)])
    accounts = d_btree(c, lambda c: [d_tid(c), d_opt(c, lambda c: [d_seed(c) for _ in range(d_count(c))])])
    instrs = d_btree(c, lambda c: [d_tid(c), d_as(c)])
    return {"name": name, "types": types, "ext": ext, "sets": sets, "accounts": accounts, "instrs": instrs}


def decode(ints):
    try:
        c = Cur(ints)
        mode = c.next()
        if mode not in (0, 1):
            raise Bad()
        defs = [d_def(c) for _ in range(d_count(c))]
        if c.i != len(ints):
            raise Bad()
        return mode, defs
    except (Bad, RecursionError):
        return None


# =================================================================================================
# the specification, judged directly: positions and their soundness
def trim(s):
    a, b = 0, len(s)
    while a < b and ord(s[a]) in WS:
        a += 1
    while b > a and ord(s[b - 1]) in WS:
        b -= 1
    return s[a:b]


def ty_positions(t, out):
    k = t[0]
    if k == "def":
        out.append(("type", t[1], t[2], len(t[3])))
        for g in t[3]:
            ty_positions(g, out)
    elif k in ARITY:
        for x in t[1:]:
            ty_positions(x, out)
    elif k == "struct":
        for x in t[1]:
            ty_positions(x, out)
    elif k == "enum":
        ty_positions(t[1], out)
        for v in t[2]:
            if v is not None:
                ty_positions(v, out)


def as_positions(a, out):
    k = a[0]
    if k == "adef":
        out.append(("set", a[1], len(a[2]), len(a[3])))
        for t in a[2]:
            ty_positions(t, out)
        for x in a[3]:
            as_positions(x, out)
    elif k == "single":
        for ns, src in a[1]:
            out.append(("acct", src, ns))
    elif k == "astruct":
        for x in a[1]:
            as_positions(x, out)
    elif k == "many":
        out.append(("many", a[2], a[3]))
        as_positions(a[1], out)
    elif k == "or":
        out.append(("or", len(a[1])))
        for x in a[1]:
            as_positions(x, out)


def def_positions(d):
    out = []
    for m in ("types", "ext"):
        for _, (_, t) in d[m]:
            ty_positions(t, out)
    for _, (_, _, a) in d["sets"]:
        as_positions(a, out)
    for _, (tid, seeds) in d["accounts"]:
        ty_positions(["def"] + tid, out)
        for s in seeds or []:
            if s[0] == "var":
                ty_positions(s[1], out)
    for _, (tid, a) in d["instrs"]:
        ty_positions(["def"] + tid, out)
        as_positions(a, out)
    return out


def get_type(d, src):
    for m in ("types", "ext"):
        for k, v in d[m]:
            if k == src:
                return v
    return None


def violations(mode, defs):
    """list of (rule, description) for every violated rule position; empty iff Sound mode defs"""
    v = []
    names = [trim(d["name"]) for d in defs]
    for n in names:
        if n == "":
            v.append((1, "empty namespace"))
    if len(set(names)) != len(names):
        v.append((2, "duplicate namespace"))

    def provider(ns):
        ps = [d for d, n in zip(defs, names) if n == ns]
        return ps[0] if ps else None

    for d in defs:
        for p in def_positions(d):
            if p[0] == "type":
                _, src, ns, ar = p
                local = get_type(d, src)
                if ns is None:
                    t, nsmissing = local, False
                else:
                    prov = provider(ns)
                    if mode == 0 and local is not None:
                        t, nsmissing = local, False
                    else:
                        t = get_type(prov, src) if prov is not None else None
                        nsmissing = prov is None
                if t is None:
                    v.append((3 if nsmissing else 4, "type %r ns %r in %r" % (src, ns, d["name"])))
                elif t[0] != ar:
                    v.append((5, "type %r arity %d vs %d" % (src, ar, t[0])))
            elif p[0] == "acct":
                _, src, ns = p
                local = any(k == src for k, _ in d["accounts"])
                if ns is None:
                    ok, nsmissing = local, False
                else:
                    prov = provider(ns)
                    if mode == 0 and local:
                        ok, nsmissing = True, False
                    else:
                        ok = prov is not None and any(k == src for k, _ in prov["accounts"])
                        nsmissing = prov is None
                if not ok:
                    v.append((3 if nsmissing else 9, "account %r ns %r in %r" % (src, ns, d["name"])))
            elif p[0] == "set":
                _, src, ntg, nag = p
                s = [x for k, x in d["sets"] if k == src]
                if not s:
                    v.append((6, "account set %r in %r" % (src, d["name"])))
                else:
                    if s[0][0] != ntg:
                        v.append((7, "account set %r type arity" % src))
                    if s[0][1] != nag:
                        v.append((8, "account set %r account arity" % src))
            elif p[0] == "many":
                if p[2] is not None and p[2] < p[1]:
                    v.append((10, "many %d..%d" % (p[1], p[2])))
            elif p[0] == "or":
                if p[1] == 0:
                    v.append((11, "empty or"))
    return v


def predicate(ints, obs):
    if obs is None or (obs and obs[0] == "UNPARSEABLE"):
        return "no observation from the implementation"
    dec = decode(ints)
    if dec is None:
        return None if obs == [-1] else "malformed case not refused by the harness decoder: %s" % obs
    if obs == [-1]:
        return "harness decoder refused a well-formed case"
    mode, defs = dec
    v = violations(mode, defs)
    if obs == [0]:
        if v:
            return "accepted but unsound: %s" % "; ".join("SFIDL%03d %s" % x for x in v[:4])
        return None
    if len(obs) == 2 and obs[0] == 1:
        if not v:
            return "rejected (SFIDL%03d) but the definition set is sound" % obs[1]
        if obs[1] not in {r for r, _ in v}:
            return "rejected with SFIDL%03d, which is not violated (violated: %s)" % (
                obs[1], sorted({r for r, _ in v}))
        return None
    if obs == [2]:
        return "the verifier panicked"
    return "unexpected observation %s" % obs


def describe(ints):
    dec = decode(ints)
    if dec is None:
        return {"malformed": True, "ints": ints[:200]}
    mode, defs = dec
    return {"mode": ["Compatibility", "StrictGraph"][mode], "definitions": defs,
            "violated_rules_per_spec": sorted({r for r, _ in violations(mode, defs)})}


def nontrivial(ints, obs):
    dec = decode(ints)
    if dec is None:
        return False
    mode, defs = dec
    npos = sum(len(def_positions(d)) for d in defs)
    return npos > 0 and (obs == [0] or len(violations(mode, defs)) <= 2)


def matches_known(entry, ints, obs):
    return False


# =================================================================================================
# the small universe
# current definition "a" and provider "b"; see RULE for the description
def base_a(name="a"):
    return mkdef(name,
                 types=[["T0", [0, prim()]], ["T1", [1, ["gen", "G0"]]], ["L0", [0, ["struct", []]]],
                        ["T2", [0, prim(3)]]],
                 ext=[["X0", [0, prim(14)]], ["X1", [1, prim()]]],
                 sets=[["S00", [0, 0, ["single", []]]], ["S10", [1, 0, ["astruct", []]]],
                       ["S01", [0, 1, ["single", []]]]],
                 accounts=[["Acc", [["T0", None, []], None]], ["AOnly", [["L0", None, []], None]]])


def base_b(name="b"):
    return mkdef(name,
                 types=[["T0", [0, prim()]], ["T1", [1, prim()]], ["Q0", [0, prim()]], ["T2", [1, prim()]]],
                 sets=[["SB", [0, 0, ["single", []]]], ["S00", [1, 1, ["single", []]]]],
                 accounts=[["Acc", [["T0", None, []], None]], ["BOnly", [["Q0", None, []], None]]])


def base_c(name=" b2 "):
    return mkdef(name, types=[["T0", [0, prim()]], ["C0", [0, prim()]]], accounts=[["COnly", [["C0", None, []], None]]])


ENVS = [  # (label, builder returning (defs, index of the current definition))
    ("a", lambda: ([base_a()], 0)),
    ("a,b", lambda: ([base_a(), base_b()], 0)),
    ("b,a", lambda: ([base_b(), base_a()], 1)),
    ("a,b,c", lambda: ([base_a(), base_b(), base_c()], 0)),
    ("c,b,a", lambda: ([base_c(), base_b(), base_a()], 2)),
    ("pad-a,b", lambda: ([base_a(" a\t"), base_b("b ")], 0)),
]
NSS = [None, "a", "b", "z", " b", "b2", " b2 "]
TSRC = [("T0", (0, 1)), ("T1", (0, 1, 2)), ("L0", (0, 1)), ("Q0", (0, 1)), ("X0", (0, 1)), ("X1", (1,)), ("M", (0,)),
        ("T2", (0, 1)), ("C0", (0,))]
TREFS = [(s, ns, ar) for s, ars in TSRC for ar in ars for ns in NSS]
SREFS = [(s, i, j) for s in ("S00", "S10", "S01", "M", "SB") for i in (0, 1, 2) for j in (0, 1, 2)]
AREFS = [(s, ns) for s in ("Acc", "AOnly", "BOnly", "COnly", "M") for ns in NSS]
MANYS = [(0, None), (5, None), (0, 0), (1, 0), (1, 1), (2, 1), (0, U64), (U64, U64 - 1), (U64, U64), (U64, None)]
ORS = [0, 1, 2]


def W_fp(x): return ["fp", x]
def W_opt(x): return ["opt", x]
def W_list0(x): return ["list", x, prim()]
def W_list1(x): return ["list", prim(5), x]
def W_ul0(x): return ["ulist", x, prim(5), prim()]
def W_ul1(x): return ["ulist", prim(5), x, prim()]
def W_ul2(x): return ["ulist", prim(5), prim(5), x]
def W_set0(x): return ["set", x, prim()]
def W_set1(x): return ["set", prim(5), x]
def W_map0(x): return ["map", x, prim(), prim()]
def W_map1(x): return ["map", prim(5), x, prim()]
def W_map2(x): return ["map", prim(5), prim(), x]
def W_arr(x): return ["arr", x]
def W_struct(x): return ["struct", [prim(), x, prim(13)]]
def W_enum0(x): return ["enum", x, [None, prim()]]
def W_enum1(x): return ["enum", prim(1), [None, x, None]]
def W_gen(x): return tref("T1", None, [x])
def W_xgen(x): return tref("X1", None, [x])


TW = [W_fp, W_opt, W_list0, W_list1, W_ul0, W_ul1, W_ul2, W_set0, W_set1, W_map0, W_map1, W_map2, W_arr, W_struct,
      W_enum0, W_enum1, W_gen, W_xgen]
TCHAINS1 = [()] + [(w,) for w in TW]
TCHAINS2 = [(w1, w2) for w1 in TW for w2 in TW]


def A_struct(x): return ["astruct", [["single", []], x]]
def A_many(x): return ["many", x, 0, None]
def A_or(x): return ["or", [["single", []], x]]
def A_gen(x): return ["adef", "S01", [], [x]]


AW = [A_struct, A_many, A_or, A_gen]
ACHAINS = [()] + [(w,) for w in AW] + [(w1, w2) for w1 in AW for w2 in AW]


def wrap(chain, x):
    for w in reversed(chain):
        x = w(x)
    return x


def put(d, table, key, val):
    d[table] = sorted([kv for kv in d[table] if kv[0] != key] + [[key, val]], key=lambda kv: kv[0])


# top contexts for a type expression `t`: function(def, t)
def TT_type(d, t): put(d, "types", "P", [0, t])
def TT_ext(d, t): put(d, "ext", "P", [0, t])
def TT_acct_gen(d, t): put(d, "accounts", "PA", [["T1", None, [t]], None])
def TT_seed(d, t): put(d, "accounts", "PA", [["T0", None, []], [["const", [1, 2]], ["var", t], ["var", prim()]]])
def TT_instr_gen(d, t): put(d, "instrs", "PI", [["X1", None, [t]], ["single", []]])
def TT_instr_set(d, t): put(d, "instrs", "PI", [["T0", None, []], ["adef", "S10", [t], []]])
def TT_set(d, t): put(d, "sets", "PS", [0, 0, ["adef", "S10", [t], []]])
def TT_set_deep(d, t): put(d, "sets", "PS", [0, 0, ["astruct", [["many", ["or", [["adef", "S10", [t], []]]], 0, 3]]]])
def TT_set_ag(d, t): put(d, "sets", "PS", [0, 0, ["adef", "S01", [], [["adef", "S10", [t], []]]]])


TTOPS = [TT_type, TT_ext, TT_acct_gen, TT_seed, TT_instr_gen, TT_instr_set, TT_set, TT_set_deep, TT_set_ag]


# direct type-id positions (no wrapper possible): account.type_id, instruction.type_id
def TD_acct(d, r): put(d, "accounts", "PA", [[r[0], r[1], [prim()] * r[2]], None])
def TD_instr(d, r): put(d, "instrs", "PI", [[r[0], r[1], [prim()] * r[2]], ["single", []]])


def AT_set(d, a): put(d, "sets", "PS", [0, 0, a])
def AT_instr(d, a): put(d, "instrs", "PI", [["T0", None, []], a])


ATOPS = [AT_set, AT_instr]


def ref_ty(r):
    return tref(r[0], r[1], [prim()] * r[2])


def fam_type1(ix):       # tops x chains<=1 x refs x envs x mode
    top, ch, r, env, mode = ix
    defs, cur = ENVS[env][1]()
    TTOPS[top](defs[cur], wrap(TCHAINS1[ch], ref_ty(TREFS[r])))
    return mode, defs


REP_TREFS = [i for i, (s, ns, ar) in enumerate(TREFS) if (s, ns, ar) in {
    ("T0", None, 0), ("T0", "b", 1), ("M", None, 0), ("M", "z", 0), ("Q0", "b", 0), ("T1", None, 0), ("T2", "b", 1),
    ("X0", "z", 0), ("Q0", None, 0), ("C0", "b2", 0)}]


def fam_type2(ix):       # three tops x chains of length 2 x representative refs x 3 envs x mode
    top, ch, r, env, mode = ix
    defs, cur = ENVS[(0, 1, 3)[env]][1]()
    (TT_type, TT_seed, TT_set_deep)[top](defs[cur], wrap(TCHAINS2[ch], ref_ty(TREFS[REP_TREFS[r]])))
    return mode, defs


def fam_typeid(ix):
    top, r, env, mode = ix
    defs, cur = ENVS[env][1]()
    (TD_acct, TD_instr)[top](defs[cur], TREFS[r])
    return mode, defs


def fam_set(ix):
    top, ch, r, env, mode = ix
    defs, cur = ENVS[env][1]()
    s, i, j = SREFS[r]
    ATOPS[top](defs[cur], wrap(ACHAINS[ch], ["adef", s, [prim()] * i, [["single", []]] * j]))
    return mode, defs


def fam_acct(ix):
    top, ch, r, pos, env, mode = ix
    defs, cur = ENVS[env][1]()
    s, ns = AREFS[r]
    lst = [[None, "Acc"], [None, "AOnly"]]
    lst.insert(pos, [ns, s])
    ATOPS[top](defs[cur], wrap(ACHAINS[ch], ["single", lst]))
    return mode, defs


def fam_shape(ix):
    top, ch, sh, env, mode = ix
    defs, cur = ENVS[env][1]()
    if sh < len(MANYS):
        node = ["many", ["single", [[None, "Acc"]]], MANYS[sh][0], MANYS[sh][1]]
    else:
        node = ["or", [["single", []]] * ORS[sh - len(MANYS)]]
    ATOPS[top](defs[cur], wrap(ACHAINS[ch], node))
    return mode, defs


NAMEPOOL = ["a", "b", "", " ", "a ", "\ta", "c", " ", "A"]


def fam_names(ix):
    n, i0, i1, i2, body, mode = ix
    names = [NAMEPOOL[i] for i in (i0, i1, i2)[:n + 1]]
    defs = []
    for k, nm in enumerate(names):
        d = mkdef(nm, types=[["T0", [0, prim()]]], accounts=[["Acc", [["T0", None, []], None]]])
        if k == 0 and body == 1:
            put(d, "types", "P", [0, tref("T0", "a")])
        if k == 0 and body == 2:
            put(d, "sets", "PS", [0, 0, ["single", [["b", "Acc"]]]])
        if k == 1 and body == 3:
            put(d, "types", "P", [0, tref("T0", "c")])
        defs.append(d)
    return mode, defs


# pairs of violations at top-level positions (which one is reported first)
def _bad_nodes():
    out = []
    for lab, t in (("t4", tref("M")), ("t5", tref("T0", None, [prim()])), ("t3", tref("M", "z"))):
        out.append((lab, "ty", t))
    for lab, a in (("s6", ["adef", "M", [], []]), ("s7", ["adef", "S00", [prim()], []]),
                   ("s8", ["adef", "S00", [], [["single", []]]]), ("s9", ["single", [[None, "M"]]]),
                   ("s3", ["single", [["z", "M"]]]), ("s10", ["many", ["single", []], 2, 1]), ("s11", ["or", []]),
                   ("st4", ["adef", "S10", [tref("M")], []])):
        out.append((lab, "as", a))
    return out


BAD = _bad_nodes()
PAIR_SLOTS = [  # (label, kind, placer(def, node, key))
    ("types", "ty", lambda d, n, k: put(d, "types", k, [0, n])),
    ("ext", "ty", lambda d, n, k: put(d, "ext", k, [0, n])),
    ("sets", "as", lambda d, n, k: put(d, "sets", k, [0, 0, n])),
    ("acct-gen", "ty", lambda d, n, k: put(d, "accounts", k, [["T1", None, [n]], None])),
    ("acct-seed", "ty", lambda d, n, k: put(d, "accounts", k, [["T0", None, []], [["var", n]]])),
    ("instr-gen", "ty", lambda d, n, k: put(d, "instrs", k, [["T1", None, [n]], ["single", []]])),
    ("instr-set", "as", lambda d, n, k: put(d, "instrs", k, [["T0", None, []], n])),
]
PAIR_CHOICES = [(di, si, bi) for di in (0, 1) for si, (_, kind, _) in enumerate(PAIR_SLOTS)
                for bi, (_, bk, _) in enumerate(BAD) if bk == kind]


def fam_pairs(ix):
    p, q, order, mode = ix
    a = base_a()
    b = base_b()
    put(b, "sets", "S10", [1, 0, ["single", []]])
    put(b, "sets", "S00", [0, 0, ["single", []]])
    ds = [a, b]
    for key, c in (("P1", PAIR_CHOICES[p]), ("P2", PAIR_CHOICES[q])):
        di, si, bi = c
        PAIR_SLOTS[si][2](ds[di], copy.deepcopy(BAD[bi][2]), key)
    return mode, (ds if order == 0 else [b, a])


FAMILIES = [
    ("t1", fam_type1, [len(TTOPS), len(TCHAINS1), len(TREFS), len(ENVS), 2]),
    ("t2", fam_type2, [3, len(TCHAINS2), len(REP_TREFS), 3, 2]),
    ("ti", fam_typeid, [2, len(TREFS), len(ENVS), 2]),
    ("se", fam_set, [len(ATOPS), len(ACHAINS), len(SREFS), len(ENVS), 2]),
    ("ac", fam_acct, [len(ATOPS), len(ACHAINS), len(AREFS), 3, len(ENVS), 2]),
    ("sh", fam_shape, [len(ATOPS), len(ACHAINS), len(MANYS) + len(ORS), len(ENVS), 2]),
    ("ns", fam_names, [3, len(NAMEPOOL), len(NAMEPOOL), len(NAMEPOOL), 4, 2]),
    ("pr", fam_pairs, [len(PAIR_CHOICES), len(PAIR_CHOICES), 2, 2]),
]


def fam_size(dims):
    n = 1
    for d in dims:
        n *= d
    return n


def universe_size():
    return sum(fam_size(d) for _, _, d in FAMILIES)


def universe_case(fi, i):
    lab, f, dims = FAMILIES[fi]
    ix = []
    j = i
    for d in reversed(dims):
        ix.append(j % d)
        j //= d
    mode, defs = f(tuple(reversed(ix)))
    return "%s_%d" % (lab, i), encode(mode, defs)


# =================================================================================================
# random larger graphs
def rnd_name(rng, pool):
    return rng.choice(pool)


def rnd_ty(rng, depth, env):
    tnames, nss = env
    r = rng.below(100)
    if depth <= 0 or r < 25:
        if rng.chance(1, 6):
            return ["gen", "G"]
        return prim(rng.below(16))
    if r < 55:
        src = rng.choice(tnames)
        ns = rng.choice(nss) if rng.chance(1, 2) else None
        ng = rng.weighted([(0, 6), (1, 3), (2, 1)])
        return tref(src, ns, [rnd_ty(rng, depth - 1, env) for _ in range(ng)])
    k = rng.choice(["fp", "opt", "list", "ulist", "set", "map", "arr", "struct", "enum"])
    if k in ARITY:
        return [k] + [rnd_ty(rng, depth - 1, env) for _ in range(ARITY[k])]
    if k == "struct":
        return ["struct", [rnd_ty(rng, depth - 1, env) for _ in range(rng.below(4))]]
    return ["enum", rnd_ty(rng, depth - 1, env),
            [None if rng.chance(1, 2) else rnd_ty(rng, depth - 1, env) for _ in range(rng.below(4))]]


def rnd_as(rng, depth, env, snames, anames):
    r = rng.below(100)
    if depth <= 0 or r < 30:
        return ["single", [[rng.choice(env[1]) if rng.chance(1, 3) else None, rng.choice(anames)]
                           for _ in range(rng.weighted([(0, 3), (1, 4), (2, 2)]))]]
    if r < 50:
        return ["adef", rng.choice(snames), [rnd_ty(rng, depth - 1, env) for _ in range(rng.weighted([(0, 6), (1, 3), (2, 1)]))],
                [rnd_as(rng, depth - 1, env, snames, anames) for _ in range(rng.weighted([(0, 7), (1, 2), (2, 1)]))]]
    if r < 68:
        return ["astruct", [rnd_as(rng, depth - 1, env, snames, anames) for _ in range(rng.below(4))]]
    if r < 84:
        mn = rng.choice([0, 0, 1, 2, 7, U64])
        mx = rng.choice([None, None, mn, mn + 1 if mn < U64 else mn, mn + 3 if mn < U64 - 3 else mn, max(0, mn - 1), 0])
        return ["many", rnd_as(rng, depth - 1, env, snames, anames), mn, mx]
    return ["or", [rnd_as(rng, depth - 1, env, snames, anames) for _ in range(rng.weighted([(0, 1), (1, 4), (2, 4), (3, 2)]))]]


def rnd_graph(rng, big):
    nd = rng.range(1, 5 if big else 3)
    npool = ["alpha", "beta", "gamma", "delta", "eps", " alpha", "beta ", "", " "]
    names = []
    for _ in range(nd):
        if rng.chance(9, 10):
            cand = [n for n in npool[:5] if n not in names] or npool[:5]
            names.append(rng.choice(cand))
        else:
            names.append(rng.choice(npool))
    tnames = ["Ta", "Tb", "Tc", "Td", "Te", "Tf"][:rng.range(2, 6)]
    snames = ["Sa", "Sb", "Sc", "Sd"][:rng.range(1, 4)]
    anames = ["Aa", "Ab", "Ac"][:rng.range(1, 3)]
    nss = [n for n in names if n.strip()] + (["zeta"] if rng.chance(1, 4) else [])
    if not nss:
        nss = ["alpha"]
    miss = rng.chance(1, 3)
    env = (tnames + (["Missing"] if miss else []), nss)
    snm = snames + (["MissingSet"] if miss and rng.chance(1, 2) else [])
    anm = anames + (["MissingAcc"] if miss and rng.chance(1, 2) else [])
    defs = []
    depth = 4 if big else 3
    for nm in names:
        d = mkdef(nm)
        # mostly complete tables so that most references resolve
        for t in tnames:
            if rng.chance(5, 6):
                put(d, "ext" if rng.chance(1, 5) else "types", t,
                    [rng.weighted([(0, 6), (1, 3), (2, 1)]), rnd_ty(rng, rng.below(depth), env)])
        for s in snames:
            if rng.chance(5, 6):
                put(d, "sets", s, [rng.weighted([(0, 6), (1, 3), (2, 1)]), rng.weighted([(0, 7), (1, 2), (2, 1)]),
                                   rnd_as(rng, rng.below(depth), env, snm, anm)])
        for a in anames:
            if rng.chance(5, 6):
                seeds = None
                if rng.chance(1, 2):
                    seeds = [["const", rng.bytes(rng.below(4))] if rng.chance(1, 2) else ["var", rnd_ty(rng, 2, env)]
                             for _ in range(rng.below(4))]
                put(d, "accounts", a, [rnd_ty_id(rng, env), seeds])
        for i in range(rng.below(4)):
            put(d, "instrs", "Ix%d" % i, [rnd_ty_id(rng, env), rnd_as(rng, depth, env, snm, anm)])
        defs.append(d)
    return defs


def rnd_ty_id(rng, env):
    t = tref(rng.choice(env[0]), rng.choice(env[1]) if rng.chance(1, 3) else None,
             [rnd_ty(rng, 2, env) for _ in range(rng.weighted([(0, 6), (1, 3), (2, 1)]))])
    return t[1:]


def repair(rng, mode, defs):
    """make most references of a random graph resolve with the right arity (so that deep positions are reached)"""
    names = [trim(d["name"]) for d in defs]
    for d in defs:
        def fix_ty(t):
            k = t[0]
            if k == "def":
                tgt = get_type(d, t[1])
                if tgt is None and t[2] is not None and t[2] in names:
                    tgt = get_type(defs[names.index(t[2])], t[1])
                if mode == 1 and t[2] is not None and t[2] in names:
                    tgt = get_type(defs[names.index(t[2])], t[1])
                if tgt is not None and rng.chance(9, 10):
                    n = tgt[0]
                    t[3] = (t[3] + [prim(), prim()])[:n]
                for g in t[3]:
                    fix_ty(g)
            elif k in ARITY:
                for x in t[1:]:
                    fix_ty(x)
            elif k == "struct":
                for x in t[1]:
                    fix_ty(x)
            elif k == "enum":
                fix_ty(t[1])
                for v in t[2]:
                    if v is not None:
                        fix_ty(v)

        def fix_as(a):
            k = a[0]
            if k == "adef":
                s = [x for kk, x in d["sets"] if kk == a[1]]
                if s and rng.chance(9, 10):
                    a[2] = (a[2] + [prim(), prim()])[:s[0][0]]
                    a[3] = (a[3] + [["single", []], ["single", []]])[:s[0][1]]
                for t in a[2]:
                    fix_ty(t)
                for x in a[3]:
                    fix_as(x)
            elif k in ("astruct", "or"):
                for x in a[1]:
                    fix_as(x)
            elif k == "many":
                fix_as(a[1])

        for m in ("types", "ext"):
            for _, v in d[m]:
                fix_ty(v[1])
        for _, v in d["sets"]:
            fix_as(v[2])
        for _, v in d["accounts"]:
            t = ["def"] + v[0]
            fix_ty(t)
            v[0] = t[1:]
            for s in v[1] or []:
                if s[0] == "var":
                    fix_ty(s[1])
        for _, v in d["instrs"]:
            t = ["def"] + v[0]
            fix_ty(t)
            v[0] = t[1:]
            fix_as(v[1])


# =================================================================================================
# single-edit mutants of the shipped IDLs
def slots(defs):
    """every editable node: (kind, node)"""
    out = []

    def ty(t):
        k = t[0]
        if k == "def":
            out.append(("tref", t))
            for g in t[3]:
                ty(g)
        elif k in ARITY:
            for x in t[1:]:
                ty(x)
        elif k == "struct":
            for x in t[1]:
                ty(x)
        elif k == "enum":
            ty(t[1])
            for v in t[2]:
                if v is not None:
                    ty(v)

    def tid(holder, idx):
        # a type id stored as [src, ns, gens] at holder[idx]
        out.append(("tid", holder[idx]))
        for g in holder[idx][2]:
            ty(g)

    def as_(a):
        k = a[0]
        if k == "adef":
            out.append(("sref", a))
            for t in a[2]:
                ty(t)
            for x in a[3]:
                as_(x)
        elif k == "single":
            for p in a[1]:
                out.append(("aref", p))
        elif k == "astruct":
            for x in a[1]:
                as_(x)
        elif k == "many":
            out.append(("many", a))
            as_(a[1])
        elif k == "or":
            out.append(("or", a))
            for x in a[1]:
                as_(x)

    for d in defs:
        out.append(("defname", d))
        for m in ("types", "ext", "sets", "accounts", "instrs"):
            for i in range(len(d[m])):
                out.append(("item", (d, m, i)))
        for m in ("types", "ext"):
            for _, v in d[m]:
                out.append(("tgen", v))
                ty(v[1])
        for _, v in d["sets"]:
            out.append(("sgen", v))
            as_(v[2])
        for _, v in d["accounts"]:
            tid(v, 0)
            for s in v[1] or []:
                if s[0] == "var":
                    ty(s[1])
        for _, v in d["instrs"]:
            tid(v, 0)
            as_(v[1])
    return out


def edits_for(kind):
    return {"tref": 5, "tid": 5, "sref": 3, "aref": 3, "many": 2, "or": 1, "defname": 3, "item": 1, "tgen": 1,
            "sgen": 2}[kind]


def apply_edit(kind, node, e):
    if kind in ("tref", "tid"):
        o = 1 if kind == "tref" else 0
        if e == 0:
            node[o] = node[o] + "?"
        elif e == 1:
            node[o + 1] = None
        elif e == 2:
            node[o + 1] = "no_such_crate"
        elif e == 3:
            node[o + 2] = node[o + 2] + [prim()]
        elif e == 4:
            node[o + 2] = node[o + 2][:-1] if node[o + 2] else [prim(), prim()]
    elif kind == "sref":
        if e == 0:
            node[1] = node[1] + "?"
        elif e == 1:
            node[2] = node[2] + [prim()]
        elif e == 2:
            node[3] = node[3] + [["single", []]]
    elif kind == "aref":
        if e == 0:
            node[1] = node[1] + "?"
        elif e == 1:
            node[0] = None
        elif e == 2:
            node[0] = "no_such_crate"
    elif kind == "many":
        if e == 0:
            node[2], node[3] = (node[2], node[2] - 1) if node[2] > 0 else (1, 0)
        else:
            node[3] = node[2]
    elif kind == "or":
        node[1] = []
    elif kind == "defname":
        d = node
        d["name"] = ["", " \t", " " + d["name"] + " "][e]
    elif kind == "item":
        d, m, i = node
        del d[m][i]
    elif kind == "tgen":
        node[0] += 1
    elif kind == "sgen":
        node[e] += 1


_SHIPPED = None


def shipped():
    """[(name, defs)] decoded from `vh_c18 --dump-shipped` (built by the driver before gen_cases runs)"""
    global _SHIPPED
    if _SHIPPED is None:
        _SHIPPED = []
        exe = os.path.join(os.path.dirname(os.path.abspath(__file__)), "..", "..", "harness", "target", "debug", BIN)
        try:
            p = subprocess.run([exe, "--dump-shipped"], stdout=subprocess.PIPE, stderr=subprocess.DEVNULL, timeout=120)
            for line in p.stdout.decode().split("\n"):
                toks = line.split()
                if len(toks) > 2:
                    dec = decode([int(t) for t in toks[1:]])
                    if dec is not None:
                        _SHIPPED.append((toks[0], dec[1]))
        except Exception:  # noqa: BLE001
            pass
    return _SHIPPED


def mutant_cases(rng, tier):
    out = []
    sh = shipped()
    if not sh:
        return out
    alld = [copy.deepcopy(d[0]) for _, d in sh]
    groups = [(n, d) for n, d in sh] + [("all", alld)]
    for gname, defs in groups:
        for mode in (0, 1):
            out.append(("m_%s_%d_orig" % (gname, mode), encode(mode, defs)))
        sl = slots(defs)
        todo = [(si, e) for si, (kind, _) in enumerate(sl) for e in range(edits_for(kind))]
        if tier == "quick" and gname == "all":
            todo = rng.shuffle(todo)[:150]
        for si, e in todo:
            cp = copy.deepcopy(defs)
            kind, node = slots(cp)[si]
            apply_edit(kind, node, e)
            mode = rng.below(2)
            out.append(("m_%s_%d_%s%d_%d" % (gname, mode, kind, si, e), encode(mode, cp)))
    return out


# =================================================================================================
def gen_cases(rng, tier):
    cases = []
    # hand-picked edge cases first
    a, b = base_a(), base_b()
    cases.append(("h_empty_set", [0, 0]))
    cases.append(("h_empty_set_strict", [1, 0]))
    cases.append(("h_malformed", [0, 1, 1]))
    cases.append(("h_unsorted", encode(0, [dict(mkdef("a"), types=[["B", [0, prim()]], ["A", [0, prim()]]])])))
    cases.append(("h_ab", encode(1, [a, b])))
    # small universe
    total = universe_size()
    if tier == "quick":
        want = 9000
        for fi, (lab, _, dims) in enumerate(FAMILIES):
            n = fam_size(dims)
            k = max(200, want * n // total)
            if k >= n:
                idxs = range(n)
            else:
                idxs = sorted({rng.below(n) for _ in range(k)})
            for i in idxs:
                cases.append(universe_case(fi, i))
    else:
        for fi, (lab, _, dims) in enumerate(FAMILIES):
            for i in range(fam_size(dims)):
                cases.append(universe_case(fi, i))
    # random graphs
    nrand = 1500 if tier == "quick" else 40000
    for i in range(nrand):
        big = rng.chance(1, 3)
        mode = rng.below(2)
        defs = rnd_graph(rng, big)
        if rng.chance(3, 4):
            repair(rng, mode, defs)
        if rng.chance(1, 4):
            defs = rng.shuffle(defs)
        cases.append(("r%d" % i, encode(mode, defs)))
    cases.extend(mutant_cases(rng, tier))
    return cases


def shrink(ints):
    dec = decode(ints)
    if dec is None:
        return
    mode, defs = dec
    for i in range(len(defs)):
        if len(defs) > 1:
            yield encode(mode, defs[:i] + defs[i + 1:])
    for di, d in enumerate(defs):
        for m in ("types", "ext", "sets", "accounts", "instrs"):
            for i in range(len(d[m])):
                cp = copy.deepcopy(defs)
                del cp[di][m][i]
                yield encode(mode, cp)
    # replace type expressions / account sets by leaves, drop generics
    sl = slots(defs)
    for si, (kind, node) in enumerate(sl):
        if kind in ("tref", "tid") and node[-1]:
            cp = copy.deepcopy(defs)
            n2 = slots(cp)[si][1]
            n2[-1] = n2[-1][:-1]
            yield encode(mode, cp)
        if kind == "sref" and (node[2] or node[3]):
            cp = copy.deepcopy(defs)
            n2 = slots(cp)[si][1]
            if n2[3]:
                n2[3] = n2[3][:-1]
            else:
                n2[2] = n2[2][:-1]
            yield encode(mode, cp)
    for di, d in enumerate(defs):
        for m, pos in (("types", 1), ("ext", 1)):
            for i, (_, v) in enumerate(d[m]):
                if v[1][0] != "prim":
                    cp = copy.deepcopy(defs)
                    cp[di][m][i][1][1] = prim()
                    yield encode(mode, cp)
        for i, (_, v) in enumerate(d["sets"]):
            if v[2] != ["single", []]:
                cp = copy.deepcopy(defs)
                cp[di]["sets"][i][1][2] = ["single", []]
                yield encode(mode, cp)
        for i, (_, v) in enumerate(d["instrs"]):
            if v[1] != ["single", []]:
                cp = copy.deepcopy(defs)
                cp[di]["instrs"][i][1][1] = ["single", []]
                yield encode(mode, cp)
        for i, (_, v) in enumerate(d["accounts"]):
            if v[1]:
                cp = copy.deepcopy(defs)
                cp[di]["accounts"][i][1][1] = None
                yield encode(mode, cp)


def distribution(cases, impl):
    from collections import Counter
    fam = Counter()
    verdict = Counter()
    modes = Counter()
    ndefs = Counter()
    for cid, c in cases:
        if cid.startswith("corpus:"):
            fam["corpus"] += 1
            pre = None
        else:
            pre = cid
        if pre:
            fam[pre.split("_")[0].rstrip("0123456789") if pre[0] in "rhm" else pre.split("_")[0]] += 1
        o = impl.get(cid) or []
        verdict["ok" if o == [0] else ("SFIDL%03d" % o[1] if len(o) == 2 and o[0] == 1 else str(o))] += 1
        if c:
            modes[["compat", "strict"][c[0]] if c[0] in (0, 1) else "?"] += 1
        if len(c) > 1:
            ndefs["defs=%d" % c[1]] += 1
    return {"family": dict(fam), "verdict": dict(verdict), "mode": dict(modes), "definitions": dict(ndefs),
            "universe_size": universe_size(), "shipped_idls_mutated": [n for n, _ in shipped()]}
