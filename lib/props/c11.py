"""C11 - exact dispatch; lifecycle phases run in order and short-circuit on error.

The observations come from the REAL macros (derive(InstructionSet), derive(AccountSet), #[star_frame_instruction],
derive(StarFrameProgram), #[star_frame_error]) expanded on programs that have to be compiled, so this property has
its own pipeline (custom_main), like C19:

  catalogue of programs + `requires` graphs --emit--> /verif/harness/gen_c11 (one generated package, path-dependent
  on $VERIF_REPO/star_frame, shared target dir /verif/harness/target; cargo's fingerprints keep it cached while
  neither the generated sources nor /repo change)
     src/lib.rs          probes (thread-local trace, failure injection), error enums, the programs (one module each)
     src/bin/c11_main.rs reads the case file, builds native accounts, calls `StarFrameProgram::entrypoint`
     src/bin/c11_g*.rs   one derived struct per `requires` graph; running `validate_accounts` logs the field order
  the same integer cases go through the extracted model (`run_c11`, repaired ordering; `run_c11s` = the shipped
  insertion procedure, for diagnostics), observations are compared line by line, and the property predicate is
  evaluated directly on the implementation's observation.

Case encoding (decimal integers; decoded by coq/Dispatch/RunC11.v, src/bin/c11_main.rs and `decode_case` below):
  case  := 0, n, (k, r_1 .. r_k) * n                                   graph: field i requires fields r_1 .. r_k
         | 1, P, DL, desc (DL integers), input                         run program P of the catalogue
  desc  := mode (0 sighash | 1 2 4 8 repr width), signed, nix, ix * nix, nenum, enum * nenum, ntab, tab * ntab
  ix    := namelen, name bytes, has_explicit, explicit, args_len, process_event, aset
  aset  := 0, id | 1, id, hb, he, hc, nf, aset * nf, (k, r_1 .. r_k) * nf
  enum  := offset, nvar, (has, val) * nvar
  tab   := plen, preimage bytes, dlen, digest bytes                     SHA-256 oracle table (hashlib)
  input := mis, nd, data bytes, nacc, narmed, (event, kind, val) * narmed
Observation: graph -> validation order (field positions); run -> code (0 = Ok, else u64::from(ProgramError)), trace.
Events: 1000+id decode, 2000+id validate, 3000+id cleanup of leaf `id`; 4000+id / 5000+id / 6000+id the
before_validation / extra_validation / extra_cleanup hook of struct `id`; 7000+k the handler of instruction k.
Armed failure (event, kind, val): the probe logging `event` fails right after logging with
  kind 0: the builtin ProgramError number `val` (2 InvalidArgument .. 26 IncorrectAuthority)
  kind 1: ProgramError::Custom(val)          kind 2+e: variant `val` of error enum e (#[star_frame_error(offset = ..)])
"""
import hashlib
import json
import os
import re
import shutil
from collections import Counter

from lib import common as C

ID = "C11"
ENTRY = "c11"
GROUP = "disp"
COQ_TARGETS = ["Properties/C11.vo"]
GEN_DIR = os.environ.get("VERIF_C11_GEN") or os.path.join(C.HARNESS, "gen_c11")
TARGET_DIR = os.environ.get("VERIF_C11_TARGET") or os.path.join(C.HARNESS, "target")

RULE = ("(a) `requires` graphs: EVERY labelled acyclic graph on 0..4 fields (1+1+3+25+543 = 573 derived structs), "
        "5-field acyclic graphs (quick: a seeded sample; thorough: all 29281, in shards), seeded 6-8 field graphs; each "
        "struct is expanded by the real derive(AccountSet) and its validate_accounts is executed with fields that log "
        "their position. (b) program runs: a fixed catalogue of generated programs (0, 1, 3, 10 and 12 instructions; default "
        "sighash discriminants incl. acronym/digit/underscore names; repr u8/u16/u32/u64/i8/i16 with explicit and implicit "
        "discriminants; flat and nested account sets with hooks and `requires`), each instruction driven through the real "
        "StarFrameProgram::entrypoint with: exact data, trailing bytes, every truncation, unknown / near-miss discriminants "
        "(all 256 values for u8), misaligned data, 0..needed+2 accounts, and a failure armed at EVERY event of the "
        "instruction (each phase of each field, each hook, the handler) with builtin / Custom / #[star_frame_error] codes, "
        "plus seeded multi-failure mixes. non-trivial = a graph with at least one edge, or a run that selects a handler or "
        "rejects a full-width unknown discriminant; distinct = distinct integer encodings")
TRUSTED = [
    "Coq 8.16.1 kernel; vm_compute in Examples and in the D4 witness only",
    "extraction (ExtrOcamlBasic only) + runner/driver.ml + coq/Dispatch/RunC11.v (case decoding)",
    "lib/props/c11.py: program catalogue, Rust emitter, cargo driver, case generator, comparator, predicate (this file)",
    "the generated probes (src/lib.rs of gen_c11): thread-local trace, failure injection, native AccountInfo builder",
    "SHA-256 is an oracle: the theorems hold for every H; the correspondence instantiates it with hashlib's digests",
    "heck 0.5 to_snake_case is MODELLED for ASCII identifiers (coq/Dispatch/Dispatch.v) and tied by the correspondence "
    "(model, an independent Python re-implementation and the macro must agree on every catalogue name)",
    "rustc 1.90 / cargo; pinocchio's AccountInfo layout and u64::from(ProgramError); borsh's derive for fixed-size "
    "instruction structs; bytemuck::try_from_bytes alignment rule (all modelled, tied by the correspondence)",
]
ASSUMPTIONS = [
    "field names of a struct are distinct and every name in `requires` is a field (else the macro aborts), the graph is "
    "acyclic (the macro's daggy check; three cyclic structs are confirmed to be rejected on every run)",
    "discriminants of an instruction set are pairwise distinct (#[deny(unreachable_patterns)] on the generated match)",
    "instruction data handed to the entrypoint is aligned for the discriminant type, as the runtime's input buffer is "
    "(misaligned data is also exercised: the only requirement then is that no wrong handler runs)",
    "instruction argument structs are fixed-size borsh types (the catalogue uses [u8; N])",
    "identifiers are ASCII",
]

PROGRAM_ID = "Coux9zxTFKZpRdFpE4F7Fs5RZ6FdaURdckwS61BUTMG"

# ---------------------------------------------------------------------------------------------
# catalogue
def L(i):
    return ("L", i)


def N(i, kids, reqs=None, hb=False, he=False, hc=False):
    reqs = reqs if reqs is not None else [[] for _ in kids]
    assert len(reqs) == len(kids)
    return ("N", i, int(hb), int(he), int(hc), list(kids), [list(r) for r in reqs])


def IX(name, aset, alen=0, explicit=None):
    return {"name": name, "explicit": explicit, "alen": alen, "aset": aset}


def PROG(mode, ixs, signed=0):
    for k, ix in enumerate(ixs):
        ix["ev"] = 7000 + k
    return {"mode": mode, "signed": signed, "ixs": ixs}


# error enums of the generated crate: (rust name, offset, [(variant, explicit or None)])
ERR_ENUMS = [
    ("ErrA", 0, [("V0", None), ("V1", None), ("V7", 7), ("V8", None), ("V65535", 65535)]),
    ("ErrB", 7, [("V0", None), ("V100", 100), ("V101", None), ("V5", 5), ("V6", None)]),
    ("ErrC", 65535, [("V65535", 65535), ("V3", 3)]),
]

D4SET = N(50, [L(1), L(2), L(3)], [[2], [0], []], hb=True, he=True, hc=True)      # a requires c, b requires a
FLAT3 = N(50, [L(1), L(2), L(3)])
FLAT3R = N(50, [L(1), L(2), L(3)], [[1], [], [1]], he=True)
DIAMOND5 = N(50, [L(1), L(2), L(3), L(4), L(5)], [[3, 4], [0], [], [2], [2]], hb=True, hc=True)
NESTED = N(50, [L(1),
                N(51, [L(2), L(3), L(4)], [[2], [], [1]], hb=True, he=True, hc=True),
                L(5),
                N(52, [L(6), N(53, [L(7), L(8)], [[1], []], he=True)], [[1], []], hc=True)],
           [[1], [], [0, 3], []], hb=True, he=True)
CHAIN4 = N(50, [L(1), L(2), L(3), L(4)], [[1], [2], [3], []])
TRICKY_NAMES = ["A", "ABc", "FieldNamE11", "V2Thing", "XMLHttpRequest", "Trail__", "__Lead", "Mid__Dle",
                "abc123DEF456", "snake_case_name"]


def _catalogue():
    progs = []
    # 0: one instruction, default sighash, one account
    progs.append(PROG(0, [IX("Initialize", N(50, [L(1)]))]))
    # 1: three instructions, sighash; the D4 shape with all hooks; a bare leaf as the account set
    progs.append(PROG(0, [IX("DoThing", D4SET, alen=4), IX("HTTPRequest2Go", L(9)), IX("Ix1", FLAT3R, alen=1)]))
    # 2: tricky names for the snake-casing of the default discriminant
    progs.append(PROG(0, [IX(n, N(50, [L(1), L(2)], [[1], []]) if k % 2 else L(1), alen=k % 3)
                          for k, n in enumerate(TRICKY_NAMES)]))
    # 3..8: integer repr discriminants
    progs.append(PROG(1, [IX("A", L(1), explicit=3), IX("B", FLAT3, alen=2), IX("C", L(2), explicit=200),
                          IX("D", L(3)), IX("E", FLAT3R, explicit=0)]))
    progs.append(PROG(2, [IX("A", L(1), explicit=0x0102), IX("B", FLAT3, alen=1), IX("C", L(2), explicit=65535)]))
    progs.append(PROG(4, [IX("A", L(1)), IX("B", FLAT3R, alen=3), IX("C", L(2), explicit=0xDEADBEEF)]))
    progs.append(PROG(8, [IX("A", L(1), explicit=1 << 40), IX("B", FLAT3), IX("C", L(2), alen=8, explicit=(1 << 64) - 1)]))
    progs.append(PROG(2, [IX("A", L(1), explicit=-2), IX("B", FLAT3), IX("C", L(2)), IX("D", L(3), alen=2, explicit=300)],
                      signed=1))
    progs.append(PROG(1, [IX("A", L(1), explicit=-128), IX("B", L(2), explicit=127), IX("C", FLAT3, explicit=-1)], signed=1))
    # 9: nested account sets, three levels, hooks everywhere
    progs.append(PROG(0, [IX("Nested", NESTED, alen=2), IX("Chain", CHAIN4)]))
    # 10: five fields, diamond with a tail, 8 argument bytes
    progs.append(PROG(0, [IX("Diamond", DIAMOND5, alen=8)]))
    # 11: empty instruction set
    progs.append(PROG(0, []))
    # 12: twelve instructions
    progs.append(PROG(0, [IX("Ix%d" % k, [L(1), FLAT3, FLAT3R, CHAIN4][k % 4], alen=k % 5) for k in range(12)]))
    return progs


CATALOGUE = _catalogue()


# ---------------------------------------------------------------------------------------------
# helpers over account sets (Python side; independent of the Coq model)
def leaves(a):
    """leaf ids in declaration (depth-first) order"""
    if a[0] == "L":
        return [a[1]]
    out = []
    for k in a[5]:
        out += leaves(k)
    return out


def nodes(a):
    if a[0] == "L":
        return []
    out = [a]
    for k in a[5]:
        out += nodes(k)
    return out


def cleanup_order(a):
    if a[0] == "L":
        return [3000 + a[1]]
    out = []
    for k in a[5]:
        out += cleanup_order(k)
    if a[4]:
        out.append(6000 + a[1])
    return out


def validate_events(a):
    """the SET of validate-phase events of a subtree"""
    if a[0] == "L":
        return {2000 + a[1]}
    s = set()
    if a[2]:
        s.add(4000 + a[1])
    if a[3]:
        s.add(5000 + a[1])
    for k in a[5]:
        s |= validate_events(k)
    return s


def all_events(ix):
    a = ix["aset"]
    return ([1000 + i for i in leaves(a)] + sorted(validate_events(a)) + [ix["ev"]] + cleanup_order(a))


# ---------------------------------------------------------------------------------------------
# independent snake_case (heck 0.5 rules, ASCII): written as boundary detection over each alphanumeric run
def py_snake(name):
    words = []
    for run in re.split(r"[^A-Za-z0-9]", name):
        if not run:
            continue
        start = 0
        last_cased = None          # 'l' / 'u' : case of the last cased char since the last boundary
        for i, c in enumerate(run):
            nxt = run[i + 1] if i + 1 < len(run) else None
            if nxt is None:
                break
            cur_cased = "l" if c.islower() else ("u" if c.isupper() else last_cased)
            if cur_cased == "l" and nxt.isupper():
                words.append(run[start:i + 1])
                start = i + 1
                last_cased = None
            elif last_cased == "u" and c.isupper() and nxt.islower():
                words.append(run[start:i])
                start = i
                last_cased = None
            else:
                last_cased = cur_cased
        words.append(run[start:])
    return "_".join(w.lower() for w in words)


def enum_values(explicits):
    out, nxt = [], 0
    for e in explicits:
        v = e if e is not None else nxt
        out.append(v)
        nxt = v + 1
    return out


def py_discs(prog):
    """expected discriminant bytes of every instruction, computed without the model and without the macro"""
    if prog["mode"] == 0:
        return [hashlib.sha256(("global:" + py_snake(ix["name"])).encode()).digest()[:8] for ix in prog["ixs"]]
    w = prog["mode"]
    vals = enum_values([ix["explicit"] for ix in prog["ixs"]])
    return [(v % (1 << (8 * w))).to_bytes(w, "little") for v in vals]


def width(prog):
    return 8 if prog["mode"] == 0 else prog["mode"]


def expected_code(kind, val):
    if kind == 0:
        return val << 32
    if kind == 1:
        return val if val else 1 << 32
    _, offset, variants = ERR_ENUMS[kind - 2]
    c = (offset << 16) + enum_values([e for _, e in variants])[val]
    return c if c else 1 << 32


# ---------------------------------------------------------------------------------------------
# encoding
def enc_aset(a):
    if a[0] == "L":
        return [0, a[1]]
    out = [1, a[1], a[2], a[3], a[4], len(a[5])]
    for k in a[5]:
        out += enc_aset(k)
    for r in a[6]:
        out += [len(r)] + list(r)
    return out


def enc_desc(prog):
    out = [prog["mode"], prog["signed"], len(prog["ixs"])]
    for ix in prog["ixs"]:
        nb = list(ix["name"].encode())
        out += [len(nb)] + nb
        out += [0 if ix["explicit"] is None else 1, 0 if ix["explicit"] is None else ix["explicit"], ix["alen"], ix["ev"]]
        out += enc_aset(ix["aset"])
    out.append(len(ERR_ENUMS))
    for _, offset, variants in ERR_ENUMS:
        out += [offset, len(variants)]
        for _, e in variants:
            out += [0 if e is None else 1, 0 if e is None else e]
    tab = []
    if prog["mode"] == 0:
        for ix in prog["ixs"]:
            pre = ("global:" + py_snake(ix["name"])).encode()
            tab.append((list(pre), list(hashlib.sha256(pre).digest())))
    out.append(len(tab))
    for pre, dig in tab:
        out += [len(pre)] + pre + [len(dig)] + dig
    return out


DESCS = [enc_desc(p) for p in CATALOGUE]


def enc_run(p, mis, data, nacc, armed):
    d = DESCS[p]
    out = [1, p, len(d)] + d + [mis, len(data)] + list(data) + [nacc, len(armed)]
    for e, k, v in armed:
        out += [e, k, v]
    return out


def enc_graph(reqs):
    out = [0, len(reqs)]
    for r in reqs:
        out += [len(r)] + list(r)
    return out


def dec_graph(ints):
    it = iter(ints[1:])
    n = next(it)
    reqs = []
    for _ in range(n):
        k = next(it)
        reqs.append([next(it) for _ in range(k)])
    return reqs


def decode_case(ints):
    """-> ('graph', reqs) | ('run', p, prog, dict(mis, data, nacc, armed))"""
    if ints[0] == 0:
        return ("graph", dec_graph(ints))
    p, dl = ints[1], ints[2]
    rest = ints[3 + dl:]
    mis, nd = rest[0], rest[1]
    data = rest[2:2 + nd]
    nacc, narmed = rest[2 + nd], rest[3 + nd]
    arm = rest[4 + nd:]
    armed = [(arm[3 * i], arm[3 * i + 1], arm[3 * i + 2]) for i in range(narmed)]
    return ("run", p, CATALOGUE[p] if 0 <= p < len(CATALOGUE) and DESCS[p] == ints[3:3 + dl] else None,
            {"mis": mis, "data": data, "nacc": nacc, "armed": armed})


# ---------------------------------------------------------------------------------------------
# the property, judged directly on the implementation's observation (no Coq model involved)
def predicate_graph(reqs, obs):
    n = len(reqs)
    if sorted(obs) != list(range(n)):
        return "validation order %s is not a permutation of the %d fields (every field exactly once)" % (obs, n)
    pos = {f: i for i, f in enumerate(obs)}
    for f, rs in enumerate(reqs):
        for r in rs:
            if pos[r] > pos[f]:
                return "field %d is validated before field %d, which it requires (order %s)" % (f, r, obs)
    if not any(reqs) and obs != list(range(n)):
        return "no `requires` anywhere but the order %s is not declaration order" % (obs,)
    return None


class Bad(Exception):
    pass


def _match_validate(a, evs, i):
    """consume the validate-phase events of subtree `a` from evs[i:]; returns (i', complete)"""
    if a[0] == "L":
        if i == len(evs):
            return i, False
        if evs[i] != 2000 + a[1]:
            raise Bad("expected the validation of field %d, saw event %d" % (a[1], evs[i]))
        return i + 1, True
    _, nid, hb, he, _, kids, reqs = a
    if hb:
        if i == len(evs):
            return i, False
        if evs[i] != 4000 + nid:
            raise Bad("before_validation of struct %d does not run first (saw event %d)" % (nid, evs[i]))
        i += 1
    sets = [validate_events(k) for k in kids]
    done = []
    while len(done) < len(kids):
        if i == len(evs):
            return i, False
        owner = [k for k, s in enumerate(sets) if evs[i] in s]
        if not owner:
            raise Bad("event %d inside the validation of struct %d does not belong to a pending field" % (evs[i], nid))
        k = owner[0]
        if k in done:
            raise Bad("field #%d of struct %d is validated twice" % (k, nid))
        for r in reqs[k]:
            if r not in done:
                raise Bad("field #%d of struct %d is validated before field #%d, which it requires" % (k, nid, r))
        if not any(reqs) and k != len(done):
            raise Bad("struct %d declares no `requires` but validates field #%d at position %d" % (nid, k, len(done)))
        i, complete = _match_validate(kids[k], evs, i)
        if not complete:
            return i, False
        done.append(k)
    if he:
        if i == len(evs):
            return i, False
        if evs[i] != 5000 + nid:
            raise Bad("extra_validation of struct %d does not run last (saw event %d)" % (nid, evs[i]))
        i += 1
    return i, True


PHASE_OF_KIND = {1: 1, 2: 2, 4: 2, 5: 2, 7: 3, 3: 4, 6: 4}


def predicate_run(prog, inp, obs):
    code, trace = obs[0], list(obs[1:])
    if code < 0:
        return "the entrypoint panicked (trace %s)" % (trace,)
    data = bytes(inp["data"])
    w = width(prog)
    discs = py_discs(prog)
    if len(set(discs)) != len(discs):
        return "catalogue error: duplicate discriminants"
    sel = [i for i, d in enumerate(discs) if len(data) >= w and data[:w] == d]
    align = 1 if prog["mode"] == 0 else prog["mode"]
    misaligned = inp["mis"] % align != 0
    if not sel or (misaligned and code != 0 and not trace):
        if code == 0 or trace:
            return "no instruction's discriminant prefixes the data but code=%d trace=%s (must be rejected, nothing run)" % (code, trace)
        return None
    ix = prog["ixs"][sel[0]]
    rest = data[w:]
    if len(rest) < ix["alen"]:
        if code == 0 or trace:
            return "arguments are truncated (%d of %d bytes) but code=%d trace=%s" % (len(rest), ix["alen"], code, trace)
        return None
    a = ix["aset"]
    lv = leaves(a)
    allowed = set(all_events(ix))
    if len(set(trace)) != len(trace):
        return "an event occurs twice in the trace %s" % (trace,)
    for e in trace:
        if e not in allowed:
            if e // 1000 == 7:
                return "handler event %d ran but the data selects instruction #%d (%s)" % (e, sel[0], ix["name"])
            return "event %d does not belong to the selected instruction %s" % (e, ix["name"])
    phases = [PHASE_OF_KIND[e // 1000] for e in trace]
    if phases != sorted(phases):
        return "phases out of order (1 decode 2 validate 3 process 4 cleanup): %s for trace %s" % (phases, trace)
    dec = [e for e in trace if e // 1000 == 1]
    val = [e for e in trace if PHASE_OF_KIND[e // 1000] == 2]
    proc = [e for e in trace if e // 1000 == 7]
    cln = [e for e in trace if PHASE_OF_KIND[e // 1000] == 4]
    want_dec = [1000 + i for i in lv]
    if dec != want_dec[:len(dec)]:
        return "accounts are not decoded in declaration order: %s" % (dec,)
    want_cln = cleanup_order(a)
    if cln != want_cln[:len(cln)]:
        return "cleanup does not follow declaration order: %s (expected a prefix of %s)" % (cln, want_cln)
    try:
        used, vcomplete = _match_validate(a, val, 0)
    except Bad as e:
        return "%s; validate events %s" % (e, val)
    if used != len(val):
        return "validate events after the account set was completely validated: %s" % (val[used:],)
    if val and len(dec) != len(want_dec):
        return "validation started before every account was decoded: %s" % (trace,)
    if proc and not vcomplete:
        return "the handler ran before validation completed: %s" % (trace,)
    if cln and not proc:
        return "cleanup ran without the handler: %s" % (trace,)
    armed = {}
    for e, k, v in inp["armed"]:
        armed.setdefault(e, (k, v))
    hit = [j for j, e in enumerate(trace) if e in armed]
    if hit:
        j = hit[0]
        if len(trace) != j + 1:
            return "event %d failed but %s ran after it" % (trace[j], trace[j + 1:])
        want = expected_code(*armed[trace[j]])
        if code != want:
            return "event %d raised %s = code %d but the entrypoint returned %d" % (trace[j], armed[trace[j]], want, code)
        return None
    complete = len(dec) == len(want_dec) and vcomplete and len(proc) == 1 and cln == want_cln
    if code == 0:
        if not complete:
            return "the entrypoint returned Ok but the lifecycle is incomplete: %s" % (trace,)
        return None
    if inp["nacc"] < len(lv) and len(dec) == inp["nacc"] and len(trace) == len(dec):
        return None          # ran out of accounts while decoding
    return "nothing failed (no armed event in the trace, %d accounts for %d fields) but code=%d trace=%s" % (
        inp["nacc"], len(lv), code, trace)


def predicate(ints, obs):
    if obs is None or (obs and obs[0] == "UNPARSEABLE"):
        return "no observation from the implementation (%s)" % (obs,)
    d = decode_case(ints)
    if d[0] == "graph":
        return predicate_graph(d[1], list(obs))
    if d[2] is None:
        return "case does not match the catalogue"
    return predicate_run(d[2], d[3], obs)


def show_aset(a):
    if a[0] == "L":
        return "Probe<%d>" % a[1]
    _, nid, hb, he, hc, kids, reqs = a
    hooks = "".join(x for x, b in (("b", hb), ("e", he), ("c", hc)) if b)
    fs = ", ".join("%s%s" % (show_aset(k), (" requires %s" % ["#%d" % r for r in reqs[i]]) if reqs[i] else "")
                   for i, k in enumerate(kids))
    return "S%d%s{%s}" % (nid, "[" + hooks + "]" if hooks else "", fs)


def describe(ints):
    d = decode_case(ints)
    if d[0] == "graph":
        reqs = d[1]
        names = "abcdefghij"
        return {"kind": "requires graph", "fields": len(reqs),
                "struct": "struct S { %s }" % " ".join(
                    "%s%s," % (("#[validate(requires = [%s])] " % ", ".join(names[r] for r in rs)) if rs else "", names[f])
                    for f, rs in enumerate(reqs))}
    if d[2] is None:
        return {"kind": "run", "program": d[1], "error": "not in the catalogue"}
    prog, inp = d[2], d[3]
    return {"kind": "run", "program": d[1],
            "discriminants": "sighash" if prog["mode"] == 0 else "repr %s%d" % ("i" if prog["signed"] else "u", 8 * prog["mode"]),
            "instructions": ["%s(args %d bytes): %s" % (ix["name"], ix["alen"], show_aset(ix["aset"])) for ix in prog["ixs"]],
            "data": inp["data"], "misalignment": inp["mis"], "accounts": inp["nacc"], "armed(event, kind, val)": inp["armed"]}


def nontrivial(ints, obs):
    d = decode_case(ints)
    if d[0] == "graph":
        return any(d[1])
    if d[2] is None or not obs:
        return False
    return len(obs) > 1 or (obs[0] != 0 and len(d[3]["data"]) >= width(d[2]))


# ---------------------------------------------------------------------------------------------
# graphs
def is_acyclic(reqs):
    n = len(reqs)
    state = [0] * n

    def visit(f):
        if state[f] == 1:
            return False
        if state[f] == 2:
            return True
        state[f] = 1
        for r in reqs[f]:
            if not visit(r):
                return False
        state[f] = 2
        return True
    return all(visit(f) for f in range(n))


def all_dags(n):
    pairs = [(i, j) for i in range(n) for j in range(n) if i != j]
    out = []
    for mask in range(1 << len(pairs)):
        reqs = [[] for _ in range(n)]
        for k, (i, j) in enumerate(pairs):
            if mask >> k & 1:
                reqs[i].append(j)
        if is_acyclic(reqs):
            out.append(reqs)
    return out


def random_dag(rng, n):
    perm = rng.shuffle(list(range(n)))           # perm[k] may require perm[j] for j < k
    dens = rng.choice([15, 30, 50, 70])
    reqs = [[] for _ in range(n)]
    for k in range(n):
        for j in range(k):
            if rng.chance(dens, 100):
                reqs[perm[k]].append(perm[j])
    return [rng.shuffle(r) for r in reqs]


_DAG5 = None


def dags5():
    global _DAG5
    if _DAG5 is None:
        _DAG5 = all_dags(5)
    return _DAG5


def graph_sets(rng, tier):
    """-> (fixed: graphs on <= 4 fields [always the same], extra: 5-field and larger graphs of this run)"""
    fixed = []
    for n in range(0, 5):
        fixed += all_dags(n)
    extra, seen = [], set()

    def add(reqs):
        t = tuple(tuple(r) for r in reqs)
        if t not in seen:
            seen.add(t)
            extra.append(reqs)
    # the D4 witness with an unrelated 4th / 5th field, and the documented test layouts on 5 fields
    add([[2], [0], [], [], []])
    add([[4], [0], [1], [2], []])
    add([[1], [2], [3], [4], []])
    if tier == "thorough":
        for reqs in dags5():
            add(reqs)
        for _ in range(1500):
            add(random_dag(rng, rng.range(6, 8)))
    else:
        guard = 0
        while len(extra) < 2000 and guard < 40000:
            guard += 1
            add(random_dag(rng, 5))
        for _ in range(200):
            add(random_dag(rng, rng.range(6, 8)))
    return fixed, extra


# ---------------------------------------------------------------------------------------------
# run cases
def gen_runs(rng, tier):
    out = []

    def add(tag, p, mis, data, nacc, armed=()):
        out.append((tag, enc_run(p, mis, list(data), nacc, list(armed))))

    def rand_err():
        k = rng.weighted([(0, 3), (1, 3), (2, 2), (3, 2), (4, 1)])
        if k == 0:
            return (0, rng.range(2, 26))
        if k == 1:
            return (1, rng.choice([0, 1, 77, 9004, 65536, (1 << 32) - 1, rng.below(1 << 32)]))
        return (k, rng.below(len(ERR_ENUMS[k - 2][2])))

    mult = 1 if tier == "quick" else 12
    for p, prog in enumerate(CATALOGUE):
        w = width(prog)
        discs = py_discs(prog)
        align = 1 if prog["mode"] == 0 else prog["mode"]
        # unknown / short data for the whole program
        for n in range(0, w + 2):
            add("short", p, 0, rng.bytes(n), 3)
        for _ in range(6 * mult):
            add("unknown", p, 0, rng.bytes(w + rng.below(6)), rng.below(6))
        if prog["mode"] == 1:
            for v in range(256):
                add("unknown-u8-sweep", p, 0, [v, 0, 0, 0, 0, 0, 0, 0, 0], 3)
        for i, ix in enumerate(prog["ixs"]):
            d = list(discs[i])
            args = rng.bytes(ix["alen"])
            full = d + args
            nl = len(leaves(ix["aset"]))
            evs = all_events(ix)
            add("exact", p, 0, full, nl)
            for extra in (1, 5):
                add("trailing", p, 0, full + rng.bytes(extra), nl)
            for n in range(len(full)):
                add("truncated", p, 0, full[:n], nl)
            for pos in range(w):
                for bit in ((rng.below(8),) if w > 2 else range(8)):
                    nm = list(full)
                    nm[pos] ^= 1 << bit
                    add("near-miss", p, 0, nm, nl)
            for nacc in range(0, nl + 3):
                add("accounts", p, 0, full, nacc)
            for mis in range(1, 8):
                add("misaligned" if mis % align else "offset", p, mis, full, nl)
            # a failure in every phase of every field, every hook, the handler
            for e in evs:
                for _ in range(2 * mult):
                    k, v = rand_err()
                    add("armed", p, 0, full, nl, [(e, k, v)])
            # one failure with every error kind / every variant of every enum at a fixed event
            if p == 1 and i == 0:
                for v in range(2, 27):
                    add("armed-builtin", p, 0, full, nl, [(2001, 0, v)])
                for e_i, (_, _, variants) in enumerate(ERR_ENUMS):
                    for v in range(len(variants)):
                        for e in (1002, 4050, 2003, 5050, 7000, 3001, 6050):
                            add("armed-enum", p, 0, full, nl, [(e, 2 + e_i, v)])
            # events of OTHER instructions / unknown events armed: no effect
            add("armed-foreign", p, 0, full, nl, [(7999, 0, 2), (1999, 1, 5), (2999, 2, 0)])
            # several failures at once (the first one reached wins), mixed with too few accounts and trailing bytes
            for _ in range(8 * mult):
                k = rng.range(2, 3)
                arms = []
                for _ in range(k):
                    kk, vv = rand_err()
                    arms.append((rng.choice(evs), kk, vv))
                add("armed-multi", p, 0, full + rng.bytes(rng.below(3)), rng.choice([nl, nl, nl + 1, max(0, nl - 1)]), arms)
    return out


# ---------------------------------------------------------------------------------------------
# Rust emission
LIB_HEAD = r'''//! support code of the generated C11 package (written by lib/props/c11.py on every run)
#![allow(dead_code, unused_imports, unused_variables, non_snake_case, non_camel_case_types, clippy::all)]
pub use star_frame;
use star_frame::account_set::{AccountSetCleanup, AccountSetDecode, AccountSetValidate};
use star_frame::prelude::*;
use std::cell::RefCell;

thread_local! {
    pub static TRACE: RefCell<Vec<u32>> = RefCell::new(Vec::new());
    /// (event, kind, val): the probe logging `event` fails right after logging it
    pub static ARMED: RefCell<Vec<(u32, u32, u64)>> = RefCell::new(Vec::new());
}

pub fn builtin(n: u64) -> ProgramError {
    match n {
        2 => ProgramError::InvalidArgument,
        3 => ProgramError::InvalidInstructionData,
        4 => ProgramError::InvalidAccountData,
        5 => ProgramError::AccountDataTooSmall,
        6 => ProgramError::InsufficientFunds,
        7 => ProgramError::IncorrectProgramId,
        8 => ProgramError::MissingRequiredSignature,
        9 => ProgramError::AccountAlreadyInitialized,
        10 => ProgramError::UninitializedAccount,
        11 => ProgramError::NotEnoughAccountKeys,
        12 => ProgramError::AccountBorrowFailed,
        13 => ProgramError::MaxSeedLengthExceeded,
        14 => ProgramError::InvalidSeeds,
        15 => ProgramError::BorshIoError,
        16 => ProgramError::AccountNotRentExempt,
        17 => ProgramError::UnsupportedSysvar,
        18 => ProgramError::IllegalOwner,
        19 => ProgramError::MaxAccountsDataAllocationsExceeded,
        20 => ProgramError::InvalidRealloc,
        21 => ProgramError::MaxInstructionTraceLengthExceeded,
        22 => ProgramError::BuiltinProgramsMustConsumeComputeUnits,
        23 => ProgramError::InvalidAccountOwner,
        24 => ProgramError::ArithmeticOverflow,
        25 => ProgramError::Immutable,
        26 => ProgramError::IncorrectAuthority,
        _ => panic!("harness: unknown builtin error number {n}"),
    }
}

/// log the event, then fail if it is armed
pub fn event(ev: u32) -> Result<()> {
    TRACE.with(|t| t.borrow_mut().push(ev));
    let hit = ARMED.with(|a| a.borrow().iter().find(|x| x.0 == ev).copied());
    if let Some((_, kind, val)) = hit {
        return Err(raise(kind, val));
    }
    Ok(())
}

/// a leaf account set: one account, logs every lifecycle call
#[derive(Debug, Clone, Copy)]
pub struct Probe<const ID: u32>(pub AccountInfo);

impl<'a, const ID: u32> AccountSetDecode<'a, ()> for Probe<ID> {
    fn decode_accounts(accounts: &mut &'a [AccountInfo], _arg: (), ctx: &mut Context) -> Result<Self> {
        let info = <AccountInfo as AccountSetDecode<'a, ()>>::decode_accounts(accounts, (), ctx)?;
        event(1000 + ID)?;
        Ok(Probe(info))
    }
}
impl<const ID: u32> AccountSetValidate<()> for Probe<ID> {
    fn validate_accounts(&mut self, _arg: (), _ctx: &mut Context) -> Result<()> {
        event(2000 + ID)
    }
}
impl<const ID: u32> AccountSetCleanup<()> for Probe<ID> {
    fn cleanup_accounts(&mut self, _arg: (), _ctx: &mut Context) -> Result<()> {
        event(3000 + ID)
    }
}

/// the field type of the `requires` graph structs (the pattern of star_frame's own account_set::test)
#[derive(AccountSet)]
#[account_set(skip_client_account_set, skip_cpi_account_set, skip_default_idl)]
#[validate(arg = &mut Vec<usize>, extra_validation = { arg.push(N); Ok(()) })]
pub struct Inner<const N: usize>;

/// native accounts: pinocchio's 88-byte header + 10 KiB headroom, 8-aligned (harness/src/lib.rs NativeAccount)
pub struct NativeAccounts {
    _bufs: Vec<Vec<u64>>,
    pub infos: Vec<star_frame::pinocchio::account_info::AccountInfo>,
}
impl NativeAccounts {
    pub fn new(n: usize) -> Self {
        let mut bufs = Vec::new();
        let mut infos = Vec::new();
        for i in 0..n {
            let mut buf = vec![0u64; (88 + 10240 + 16) / 8];
            let p = buf.as_mut_ptr().cast::<u8>();
            unsafe {
                *p = 0xFF; // NOT_BORROWED
                *p.add(8) = (i + 1) as u8; // key
                p.add(72).cast::<u64>().write(1_000_000);
                infos.push(std::mem::transmute::<*mut u8, star_frame::pinocchio::account_info::AccountInfo>(p));
            }
            bufs.push(buf);
        }
        NativeAccounts { _bufs: bufs, infos }
    }
}

pub static PROGRAM_KEY: [u8; 32] = [9u8; 32];
'''


def rust_errors():
    out = []
    for name, offset, variants in ERR_ENUMS:
        out.append("#[star_frame_error(offset = %d, skip_idl)]" % offset)
        out.append("pub enum %s {" % name)
        for v, e in variants:
            out.append('    #[msg("%s::%s")]' % (name, v))
            out.append("    %s%s," % (v, "" if e is None else " = %d" % e))
        out.append("}")
        out.append("pub const %s_ALL: [%s; %d] = [%s];" % (name.upper(), name, len(variants),
                                                          ", ".join("%s::%s" % (name, v) for v, _ in variants)))
        out.append("")
    out.append("pub fn raise(kind: u32, val: u64) -> Error {")
    out.append("    match kind {")
    out.append("        0 => Error::new(builtin(val)),")
    out.append("        1 => Error::new(ProgramError::Custom(val as u32)),")
    for k, (name, _, _) in enumerate(ERR_ENUMS):
        out.append("        %d => Error::new(%s_ALL[val as usize])," % (k + 2, name.upper()))
    out.append('        _ => panic!("harness: unknown error kind {kind}"),')
    out.append("    }")
    out.append("}")
    return out


def rust_ty(a):
    return "Probe<%d>" % a[1] if a[0] == "L" else "S%d" % a[1]


def rust_structs(a, done, out):
    if a[0] == "L" or a[1] in done:
        return
    done.add(a[1])
    _, nid, hb, he, hc, kids, reqs = a
    for k in kids:
        rust_structs(k, done, out)
    out.append("    #[derive(AccountSet)]")
    out.append("    #[account_set(skip_client_account_set, skip_cpi_account_set, skip_default_idl)]")
    v = []
    if hb:
        v.append("before_validation = event(%d)" % (4000 + nid))
    if he:
        v.append("extra_validation = event(%d)" % (5000 + nid))
    if v:
        out.append("    #[validate(%s)]" % ", ".join(v))
    if hc:
        out.append("    #[cleanup(extra_cleanup = event(%d))]" % (6000 + nid))
    out.append("    pub struct S%d {" % nid)
    for i, k in enumerate(kids):
        if reqs[i]:
            out.append("        #[validate(requires = [%s])]" % ", ".join("f%d" % r for r in reqs[i]))
        out.append("        pub f%d: %s," % (i, rust_ty(k)))
    out.append("    }")


def rust_program(p, prog):
    out = ["pub mod p%d {" % p, "    use super::*;"]
    for ix in prog["ixs"]:
        # each instruction gets its own structs: ids are unique per instruction, so wrap in a module
        out.append("    pub mod ix_%s {" % ix["name"])
        out.append("        use super::*;")
        inner = []
        rust_structs(ix["aset"], set(), inner)
        out += ["    " + l for l in inner]
        out.append("        #[derive(BorshSerialize, BorshDeserialize, Debug, InstructionArgs)]")
        out.append('        #[borsh(crate = "star_frame::borsh")]')
        if ix["alen"]:
            out.append("        pub struct %s { pub x: [u8; %d] }" % (ix["name"], ix["alen"]))
        else:
            out.append("        pub struct %s;" % ix["name"])
        out.append("        #[star_frame_instruction]")
        out.append("        fn %s(accounts: &mut %s) -> Result<()> { event(%d) }" % (ix["name"], rust_ty(ix["aset"]), ix["ev"]))
        out.append("    }")
        out.append("    pub use ix_%s::%s;" % (ix["name"], ix["name"]))
    out.append("    #[derive(InstructionSet)]")
    if prog["mode"] == 0:
        out.append("    #[ix_set(skip_idl)]")
    else:
        out.append("    #[ix_set(use_repr, skip_idl)]")
        out.append("    #[repr(%s%d)]" % ("i" if prog["signed"] else "u", 8 * prog["mode"]))
    out.append("    pub enum IxSet {")
    for ix in prog["ixs"]:
        ex = "" if ix["explicit"] is None or prog["mode"] == 0 else " = %d" % ix["explicit"]
        out.append("        %s(%s)%s," % (ix["name"], ix["name"], ex))
    out.append("    }")
    out.append("    #[derive(StarFrameProgram)]")
    out.append('    #[program(instruction_set = IxSet, id = "%s", no_entrypoint, skip_idl)]' % PROGRAM_ID)
    out.append("    pub struct Prog;")
    out.append("}")
    return out


def lib_rs():
    out = [LIB_HEAD]
    out += rust_errors()
    out.append("")
    for p, prog in enumerate(CATALOGUE):
        out += rust_program(p, prog)
        out.append("")
    out.append("pub fn run_program(p: usize, infos: &[star_frame::pinocchio::account_info::AccountInfo], data: &[u8]) -> Option<ProgramResult> {")
    out.append("    match p {")
    for p in range(len(CATALOGUE)):
        out.append("        %d => Some(<p%d::Prog as StarFrameProgram>::entrypoint(&PROGRAM_KEY, infos, data))," % (p, p))
    out.append("        _ => None,")
    out.append("    }")
    out.append("}")
    return "\n".join(out) + "\n"


MAIN_RS = r'''// generated by lib/props/c11.py: the run interpreter (trusted plumbing)
use gen_c11::*;
use std::io::{BufRead, Write};
use std::panic::{catch_unwind, AssertUnwindSafe};

fn main() {
    std::panic::set_hook(Box::new(|_| {}));
    let path = std::env::args().nth(1).expect("case file");
    let f = std::fs::File::open(path).expect("open case file");
    let stdout = std::io::stdout();
    for line in std::io::BufReader::new(f).lines() {
        let line = line.unwrap();
        let mut it = line.split_whitespace();
        let Some(id) = it.next() else { continue };
        let v: Vec<i128> = it.map(|t| t.parse::<i128>().expect("int")).collect();
        if v.first() != Some(&1) {
            continue;
        }
        let p = v[1] as usize;
        let dl = v[2] as usize;
        let r = &v[3 + dl..];
        let mis = r[0] as usize;
        let nd = r[1] as usize;
        let data: Vec<u8> = r[2..2 + nd].iter().map(|x| *x as u8).collect();
        let nacc = r[2 + nd] as usize;
        let narmed = r[3 + nd] as usize;
        let armed: Vec<(u32, u32, u64)> = (0..narmed)
            .map(|i| (r[4 + nd + 3 * i] as u32, r[5 + nd + 3 * i] as u32, r[6 + nd + 3 * i] as u64))
            .collect();
        // the instruction data at an 8-aligned address plus `mis`
        let mut buf = vec![0u64; nd / 8 + 3];
        let bytes: &[u8] = unsafe {
            let ptr = buf.as_mut_ptr().cast::<u8>().add(mis);
            std::ptr::copy_nonoverlapping(data.as_ptr(), ptr, nd);
            std::slice::from_raw_parts(ptr, nd)
        };
        let accounts = NativeAccounts::new(nacc);
        TRACE.with(|t| t.borrow_mut().clear());
        ARMED.with(|a| *a.borrow_mut() = armed);
        let res = catch_unwind(AssertUnwindSafe(|| run_program(p, &accounts.infos, bytes)));
        let code: i128 = match res {
            Ok(Some(Ok(()))) => 0,
            Ok(Some(Err(e))) => u64::from(e) as i128,
            Ok(None) => -3,
            Err(_) => -1,
        };
        let trace = TRACE.with(|t| t.borrow().clone());
        let mut o = stdout.lock();
        write!(o, "OBS {id} {code}").unwrap();
        for e in trace {
            write!(o, " {e}").unwrap();
        }
        writeln!(o).unwrap();
    }
}
'''


def alt_graph(reqs):
    """the `requires` graph given to the second validate id ("alt") of the struct generated for `reqs`:
    the same graph with the field labels mirrored (i -> n-1-i): acyclic iff `reqs` is, different from it in general,
    so an ordering that consults another id's `requires` is observable"""
    n = len(reqs)
    out = [[] for _ in range(n)]
    for i, rs in enumerate(reqs):
        out[n - 1 - i] = sorted(n - 1 - j for j in rs)
    return out


def graph_bin_rs(items):
    """items: [(gid, reqs)]"""
    lines = ["// generated by lib/props/c11.py: one derived account set per `requires` graph",
             "#![allow(dead_code, unused_imports, non_snake_case, unused_variables, non_camel_case_types)]",
             "use gen_c11::Inner;", "use star_frame::account_set::AccountSetValidate;", "use star_frame::prelude::*;", ""]
    calls = []
    for gid, reqs in items:
        n = len(reqs)
        lines.append("#[derive(AccountSet)]")
        lines.append("#[account_set(skip_client_account_set, skip_cpi_account_set, skip_default_idl)]")
        lines.append("#[validate(arg = &mut Vec<usize>)]")
        lines.append("#[validate(id = \"alt\", arg = (&mut Vec<usize>,))]")
        lines.append("struct G%s {" % gid)
        alt = alt_graph(reqs)
        for i in range(n):
            rq = ", requires = [%s]" % ", ".join("f%d" % j for j in reqs[i]) if reqs[i] else ""
            lines.append("    #[validate(arg = &mut *arg%s)]" % rq)
            rq = ", requires = [%s]" % ", ".join("f%d" % j for j in alt[i]) if alt[i] else ""
            lines.append("    #[validate(id = \"alt\", arg = &mut *arg.0%s)]" % rq)
            lines.append("    f%d: Inner<%d>," % (i, i))
        lines.append("}")
        init = ", ".join("f%d: Inner::<%d>" % (i, i) for i in range(n))
        calls.append("    { let mut v = Vec::new(); let mut ctx = Context::default(); let mut s = G%s { %s }; "
                     "AccountSetValidate::<(&mut Vec<usize>,)>::validate_accounts(&mut s, (&mut v,), &mut ctx).unwrap(); "
                     "println!(\"OBS %sx {}\", v.iter().map(|x| x.to_string()).collect::<Vec<_>>().join(\" \")); }" % (gid, init, gid))
        calls.append("    { let mut v = Vec::new(); let mut ctx = Context::default(); let mut s = G%s { %s }; "
                     "AccountSetValidate::<&mut Vec<usize>>::validate_accounts(&mut s, &mut v, &mut ctx).unwrap(); "
                     "println!(\"OBS %s {}\", v.iter().map(|x| x.to_string()).collect::<Vec<_>>().join(\" \")); }" % (gid, init, gid))
    lines.append("fn main() {")
    lines += calls
    lines.append("}")
    return "\n".join(lines) + "\n"


CYCLIC = [("cyc_self", [[0]]), ("cyc_two", [[1], [0]]), ("cyc_three", [[1], [2], [0], []])]


def cargo_toml(bins, examples):
    head = """# generated by lib/props/c11.py
[package]
name = "gen_c11"
version = "0.0.0"
edition = "2021"
publish = false
autobins = false
autoexamples = false

[workspace]

[lib]
path = "src/lib.rs"

[dependencies]
star_frame = { path = "%s/star_frame", features = ["test_helpers", "idl"] }
bytemuck = { version = "1.22", features = ["derive", "min_const_generics", "extern_crate_std"] }
borsh = { version = "1.5.7", features = ["derive"] }

[profile.dev]
opt-level = 1
debug = 0
incremental = false

[lints.rust]
unexpected_cfgs = { level = "allow" }
""" % C.REPO
    b = "".join('\n[[bin]]\nname = "%s"\npath = "src/bin/%s.rs"\n' % (n, n) for n in bins)
    e = "".join('\n[[example]]\nname = "%s"\npath = "examples/%s.rs"\n' % (n, n) for n in examples)
    return head + b + e


def write_if_changed(path, text):
    if os.path.exists(path) and open(path, encoding="utf-8").read() == text:
        return False
    os.makedirs(os.path.dirname(path), exist_ok=True)
    with open(path, "w", encoding="utf-8") as f:
        f.write(text)
    return True


def write_package(fixed, extra, replay_graph=None):
    """returns (bins, gid_of: {tuple(reqs) -> gid})"""
    os.makedirs(os.path.join(GEN_DIR, "src", "bin"), exist_ok=True)
    os.makedirs(os.path.join(GEN_DIR, "examples"), exist_ok=True)
    write_if_changed(os.path.join(GEN_DIR, ".cargo", "config.toml"),
                     '[net]\noffline = true\n[build]\ntarget-dir = "%s"\nrustflags = ["--cfg", "star_frame_verif"]\n' % TARGET_DIR)
    tc = os.path.join(C.HARNESS, "rust-toolchain.toml")
    if os.path.exists(tc):
        write_if_changed(os.path.join(GEN_DIR, "rust-toolchain.toml"), open(tc).read())
    lock_dst = os.path.join(GEN_DIR, "Cargo.lock")
    if not os.path.exists(lock_dst):
        shutil.copyfile(os.path.join(C.REPO, "Cargo.lock"), lock_dst)
    write_if_changed(os.path.join(GEN_DIR, ".gitignore"), "*\n")          # generated on every run, never committed
    write_if_changed(os.path.join(GEN_DIR, "src", "lib.rs"), lib_rs())
    write_if_changed(os.path.join(GEN_DIR, "src", "bin", "c11_main.rs"), MAIN_RS)
    bins = ["c11_main"]
    gid_of = {}
    files = {}

    def shard(prefix, graphs, nsh):
        nsh = max(1, min(nsh, len(graphs)))
        for s in range(nsh):
            items = []
            for k, reqs in enumerate(graphs):
                if k % nsh == s:
                    gid = "%s%05d" % (prefix, k)
                    gid_of[tuple(tuple(r) for r in reqs)] = gid
                    items.append((gid, reqs))
            name = "c11_g%s%02d" % (prefix, s)
            files[name] = graph_bin_rs(items)
            bins.append(name)

    shard("a", fixed, 8)
    shard("s", extra, max(8, min(64, len(extra) // 400)))
    if replay_graph is not None:
        t = tuple(tuple(r) for r in replay_graph)
        if t not in gid_of:
            gid_of[t] = "r00000"
            files["c11_gr00"] = graph_bin_rs([("r00000", replay_graph)])
            bins.append("c11_gr00")
    bdir = os.path.join(GEN_DIR, "src", "bin")
    keep = set(n + ".rs" for n in bins)
    for fn in os.listdir(bdir):
        if fn not in keep:
            os.remove(os.path.join(bdir, fn))
    for name, text in files.items():
        write_if_changed(os.path.join(bdir, name + ".rs"), text)
    for name, reqs in CYCLIC:
        write_if_changed(os.path.join(GEN_DIR, "examples", name + ".rs"), graph_bin_rs([(name, reqs)]))
    write_if_changed(os.path.join(GEN_DIR, "Cargo.toml"), cargo_toml(bins, [n for n, _ in CYCLIC]))
    return bins, gid_of


def run_single_graph_bins(graphs, prefix, timeout=3600):
    """each graph as its own binary (struct with the graph on the default id and its mirror on id "alt"), --keep-going;
    returns {k: {"": obs of default id, "x": obs of alt id}} for the binaries that built and ran"""
    bdir = os.path.join(GEN_DIR, "src", "bin")
    os.makedirs(bdir, exist_ok=True)
    for fn in os.listdir(bdir):
        if fn != "c11_main.rs":
            os.remove(os.path.join(bdir, fn))
    names = []
    for k, reqs in enumerate(graphs):
        name = "c11_%s%03d" % (prefix, k)
        write_if_changed(os.path.join(bdir, name + ".rs"), graph_bin_rs([("%s%05d" % (prefix, k), reqs)]))
        names.append(name)
    write_if_changed(os.path.join(GEN_DIR, "Cargo.toml"), cargo_toml(["c11_main"] + names, [n for n, _ in CYCLIC]))
    C.sh(["cargo", "build", "--offline", "--bins", "--keep-going", "--message-format=short", "-j", str(C.NPROC)],
         cwd=GEN_DIR, timeout=timeout)
    bindir = os.path.join(TARGET_DIR, "debug")
    res = {}
    for k, reqs in enumerate(graphs):
        exe = os.path.join(bindir, names[k])
        src = os.path.join(bdir, names[k] + ".rs")
        if not os.path.exists(exe) or os.path.getmtime(exe) < os.path.getmtime(src):
            continue
        rc, out = C.sh([exe], timeout=60)
        if rc != 0:
            continue
        r = {}
        for line in out.split("\n"):
            if line.startswith("OBS "):
                t = line.split()
                r["x" if t[1].endswith("x") else ""] = [int(x) for x in t[2:]]
        res[k] = r
    return res


def probe_small_graphs(timeout=3600):
    """fallback when the generated package no longer builds as a whole (a derive that aborts on some structs takes its
    whole binary down): every graph on <= 3 fields as its own binary, built with --keep-going; the ones that still
    compile are run, so a wrong order on a struct that does compile is still exhibited as a concrete input.
    returns (graph_cases, impl_obs, n_built, n_total)"""
    graphs = [g for n in range(0, 4) for g in all_dags(n)]
    bdir = os.path.join(GEN_DIR, "src", "bin")
    for fn in os.listdir(bdir):
        if fn != "c11_main.rs":
            os.remove(os.path.join(bdir, fn))
    names = []
    for k, reqs in enumerate(graphs):
        name = "c11_p%03d" % k
        write_if_changed(os.path.join(bdir, name + ".rs"), graph_bin_rs([("p%05d" % k, reqs)]))
        names.append(name)
    write_if_changed(os.path.join(GEN_DIR, "Cargo.toml"), cargo_toml(["c11_main"] + names, [n for n, _ in CYCLIC]))
    C.sh(["cargo", "build", "--offline", "--bins", "--keep-going", "--message-format=short", "-j", str(C.NPROC)],
         cwd=GEN_DIR, timeout=timeout)
    bindir = os.path.join(TARGET_DIR, "debug")
    gcs, obs, built = [], {}, 0
    for k, reqs in enumerate(graphs):
        exe = os.path.join(bindir, "c11_p%03d" % k)
        src = os.path.join(bdir, "c11_p%03d.rs" % k)
        if not os.path.exists(exe) or os.path.getmtime(exe) < os.path.getmtime(src):
            continue
        rc, out = C.sh([exe], timeout=60)
        if rc != 0:
            continue
        built += 1
        for line in out.split("\n"):
            if line.startswith("OBS "):
                t = line.split()
                obs["g" + t[1]] = [int(x) for x in t[2:]]
        gid = "p%05d" % k
        gcs.append(("g" + gid, enc_graph(reqs)))
        gcs.append(("g" + gid + "x", enc_graph(alt_graph(reqs))))
    return gcs, obs, built, len(graphs)


def build_package(bins, timeout=7200):
    rc, out = C.sh(["cargo", "build", "--offline", "--lib", "--message-format=short"], cwd=GEN_DIR, timeout=timeout)
    if rc != 0:
        raise C.CheckError("generated package library (star_frame from %s + the generated programs) does not build:\n%s" % (
            C.REPO, out[-5000:]))
    rc, out = C.sh(["cargo", "build", "--offline", "--bins", "--message-format=short", "-j", str(C.NPROC)],
                   cwd=GEN_DIR, timeout=timeout)
    if rc != 0:
        raise C.CheckError("generated `requires` graph structs / run interpreter do not build against %s:\n%s" % (
            C.REPO, out[-5000:]))
    # precondition of the ordering theorems: cyclic `requires` must not compile
    rc, out = C.sh(["cargo", "build", "--offline", "--examples", "--keep-going", "--message-format=short"],
                   cwd=GEN_DIR, timeout=timeout)
    rejected = set(re.findall(r'could not compile `gen_c11` \(example "(\w+)"\)', out))
    cyc = {n: (n in rejected and "Cycle detected" in out) for n, _ in CYCLIC}
    return cyc


def run_graph_bins(bins):
    bindir = os.path.join(TARGET_DIR, "debug")

    def one(i, shard):
        res = {}
        for b in shard:
            rc, out = C.sh([os.path.join(bindir, b)], timeout=600)
            if rc != 0:
                raise C.CheckError("graph binary %s failed (rc=%s): %s" % (b, rc, out[-2000:]))
            for line in out.split("\n"):
                if line.startswith("OBS "):
                    t = line.split()
                    res[t[1]] = [int(x) for x in t[2:]]
        return res
    gb = [b for b in bins if b != "c11_main"]
    return C.run_parallel(one, C.split_shards(gb, C.NPROC))


def run_main(cases, tag):
    """cases [(cid, ints)] (run cases) -> {cid: obs}"""
    exe = os.path.join(TARGET_DIR, "debug", "c11_main")
    shards = C.split_shards(cases, C.NPROC)

    def one(i, shard):
        path = os.path.join(C.WORK, "%s_%s_run_%d.cases" % (ID, tag, i))
        C.write_cases(path, shard)
        rc, out = C.sh([exe, path], timeout=1800)
        if rc != 0:
            raise C.CheckError("c11_main failed (rc=%s): %s" % (rc, out[-3000:]))
        res = {}
        for line in out.split("\n"):
            if line.startswith("OBS "):
                t = line.split()
                res[t[1]] = [int(x) for x in t[2:]]
        return res
    return C.run_parallel(one, shards) if cases else {}


def run_model_cases(cases, entry, tag):
    shards = C.split_shards(cases, C.NPROC)

    def one(i, shard):
        path = os.path.join(C.WORK, "%s_%s_model_%s_%d.cases" % (ID, tag, entry, i))
        C.write_cases(path, shard)
        return C.run_model(GROUP, entry, path)
    return C.run_parallel(one, shards) if cases else {}


# ---------------------------------------------------------------------------------------------
def _proofs(broken):
    err = C.gen_constants(ID)
    if err:
        broken.append(("translator tools/gen_constants.py", err))
    ok, out = C.coq_make(["Extraction/Extract_%s.vo" % GROUP])
    if not ok:
        broken.append(("model build (coq/Extraction/Extract_%s.vo)" % GROUP, out[-3000:]))
    thms = []
    ok, out = C.coq_make(list(COQ_TARGETS))
    if not ok:
        m = re.findall(r'File "\./([^"]+)", line (\d+)', out)
        where = ", ".join("%s:%s" % x for x in m[-2:]) or "?"
        broken.append(("proof obligation (%s) in %s" % (" ".join(COQ_TARGETS), where), out[-3000:]))
    else:
        thms, perr = C.check_pins(ID)
        if perr:
            broken.append(("pinned theorem statements / assumptions coq/Pins/%s.v" % ID, perr))
    bad = C.forbidden_scan()
    if bad:
        broken.append(("forbidden vernacular in the development", "\n".join(bad)))
    return thms


def distribution(cases, tags, impl):
    kinds, fields, edges, rtags, codes, tlen = Counter(), Counter(), Counter(), Counter(), Counter(), Counter()
    for cid, ints in cases:
        d = decode_case(ints)
        if d[0] == "graph":
            kinds["graph"] += 1
            fields["%d fields" % len(d[1])] += 1
            edges["%d edges" % sum(len(r) for r in d[1])] += 1
        else:
            kinds["run"] += 1
            rtags[tags.get(cid, "?")] += 1
            o = impl.get(cid) or [None]
            c = o[0]
            codes["ok" if c == 0 else ("builtin" if c and c >= 1 << 32 else "custom %s" % c if c in (9001, 9002, 9004) else "custom")] += 1
            tlen[min(len(o) - 1, 30)] += 1
    return {"kinds": dict(kinds), "graph_fields": dict(fields), "graph_edges": dict(sorted(edges.items(), key=lambda x: int(x[0].split()[0]))),
            "run_categories": dict(rtags), "run_outcomes": dict(codes),
            "trace_lengths": {str(k): v for k, v in sorted(tlen.items())}}


def shrink_graph(reqs):
    """candidates with one edge or one field removed"""
    n = len(reqs)
    for f in range(n):
        for r in reqs[f]:
            yield [[x for x in rs if not (g == f and x == r)] for g, rs in enumerate(reqs)]
    for f in range(n):
        new = []
        for g, rs in enumerate(reqs):
            if g == f:
                continue
            new.append([x - (1 if x > f else 0) for x in rs if x != f])
        yield new


def custom_main(args, tier, seed):
    timer = C.Timer()
    broken = []
    # development aid for mutation self-tests against a scratch worktree (keeps the shared coq/Gen files untouched);
    # never set by bin/check or the registered commands
    thms = _proofs(broken) if not os.environ.get("VERIF_C11_SELFTEST_NO_PROOFS") else []
    if tier == "thorough" and not broken and not args.replay:
        rc, out = C.sh(["coqchk", "-o", "-silent", "-Q", ".", "SF", "SF.Properties.%s" % ID], cwd=C.COQ, timeout=1800)
        if rc != 0 or "* Axioms: <none>" not in out:
            broken.append(("coqchk on the closure of Properties/%s.vo" % ID, out[-3000:]))
    C.log("%s proofs: %d theorems pinned, %s (%.1fs)" % (ID, len(thms), "ok" if not broken else "BROKEN", timer.s()))
    model_ok = True
    try:
        C.build_runner(GROUP)
    except Exception as e:  # noqa: BLE001
        broken.append(("model runner build", str(e)[-3000:]))
        model_ok = False
    rng = C.Rng(seed)
    fixed, extra = graph_sets(rng, tier if not args.replay else "quick")

    # ---- replay mode ----
    if args.replay:
        payload = json.load(open(args.replay))
        if "case" not in payload:
            print(json.dumps(payload, indent=1))
            return 0
        ints = payload["case"]
        d = decode_case(ints)
        impl_alt = None
        if d[0] == "graph":
            # the graph on the default validate id of its own struct, and on the second id of the mirrored struct
            write_package([], [])
            r = run_single_graph_bins([d[1], alt_graph(d[1])], "q")
            impl = r.get(0, {}).get("")
            impl_alt = r.get(1, {}).get("x")
            print("as default id of `struct S` below                     :", impl, "->", predicate(ints, impl) if impl is not None else "did not build")
            print("as id \"alt\" of the struct whose default id is mirrored :", impl_alt, "->", predicate(ints, impl_alt) if impl_alt is not None else "did not build")
            if impl is None or (impl_alt is not None and predicate(ints, impl_alt) and not predicate(ints, impl)):
                impl = impl_alt
        else:
            bins, gid_of = write_package(fixed, extra)
            build_package(bins)
            impl = run_main([("replay", ints)], "replay").get("replay")
        model = run_model_cases([("replay", ints)], "c11", "replay").get("replay") if model_ok else None
        shipped = run_model_cases([("replay", ints)], "c11s", "replay").get("replay") if model_ok else None
        print("case                  :", ints)
        print("decoded               :", json.dumps(describe(ints)))
        print("impl  obs             :", impl)
        print("model obs (repaired)  :", model)
        print("model obs (shipped)   :", shipped)
        print("predicate             :", predicate(ints, impl))
        return 0

    # ---- cases: corpus first, graphs, runs ----
    corpus = C.load_corpus(ID)
    cases, tags = [], {}
    graph_cases, run_cases = [], []
    corpus_graphs = []
    for cid, ints in corpus:
        d = decode_case(ints)
        if d[0] == "graph":
            corpus_graphs.append((cid, ints, d[1]))
        elif d[2] is not None:
            run_cases.append((cid, ints))
            tags[cid] = "corpus"
    known_graphs = set(tuple(tuple(r) for r in g) for g in fixed + extra)
    for cid, ints, reqs in corpus_graphs:
        if tuple(tuple(r) for r in reqs) not in known_graphs:
            extra.append(reqs)
            known_graphs.add(tuple(tuple(r) for r in reqs))
    runs = gen_runs(rng, tier)
    for k, (tag, ints) in enumerate(runs):
        cid = "r%06d" % k
        run_cases.append((cid, ints))
        tags[cid] = tag
    impl, model, shipped = {}, {}, {}
    cyc = {}
    gid_of = {}
    try:
        bins, gid_of = write_package(fixed, extra)
        cyc = build_package(bins)
        C.log("generated package built: %d binaries, %d graph structs (%.1fs)" % (len(bins), len(gid_of), timer.s()))
        for reqs in fixed + extra:
            gid = gid_of[tuple(tuple(r) for r in reqs)]
            graph_cases.append(("g" + gid, enc_graph(reqs)))
            tags["g" + gid] = "graph"
            # the same struct's second validate id carries the mirrored graph
            graph_cases.append(("g" + gid + "x", enc_graph(alt_graph(reqs))))
            tags["g" + gid + "x"] = "graph"
        for cid, ints, reqs in corpus_graphs:
            tags[cid] = "corpus"
        gobs = run_graph_bins(bins)
        for cid, ints in graph_cases:
            impl[cid] = gobs.get(cid[1:])
        for cid, ints, reqs in corpus_graphs:
            impl[cid] = gobs.get(gid_of[tuple(tuple(r) for r in reqs)])
        impl.update(run_main(run_cases, tier))
    except C.CheckError as e:
        broken.append(("generated package build / run against %s" % C.REPO, str(e)[-5000:]))
        # search for a concrete failing input among the structs that still compile
        try:
            graph_cases, pobs, nb, nt = probe_small_graphs()
            corpus_graphs = []
            for cid, _ in graph_cases:
                tags[cid] = "graph"
            impl.update(pobs)
            C.log("fallback: %d of %d single-struct binaries (graphs on <= 3 fields, two validate ids each) still build and run" % (nb, nt))
            if os.path.exists(os.path.join(TARGET_DIR, "debug", "c11_main")):
                try:
                    impl.update(run_main(run_cases, tier))
                except C.CheckError:
                    pass
        except Exception as e2:  # noqa: BLE001
            C.log("fallback probe failed: %s" % str(e2)[-300:])
    corpus_cases = [(cid, ints) for cid, ints, _ in corpus_graphs]
    cases = corpus_cases + graph_cases + run_cases
    for n, ok in cyc.items():
        if not ok:
            broken.append(("precondition of C11_order_correct: the macro no longer rejects the cyclic `requires` struct %s "
                           "(harness/gen_c11/examples/%s.rs compiles)" % (n, n), ""))
    C.log("ran %d graph structs and %d program runs (%.1fs)" % (len(graph_cases) + len(corpus_cases), len(run_cases), timer.s()))
    if model_ok and cases:
        try:
            model = run_model_cases(cases, "c11", tier)
        except C.CheckError as e:
            broken.append(("model runner", str(e)[-2000:]))
    disagreements, failing = [], []
    if impl:
        for cid, ints in cases:
            why = predicate(ints, impl.get(cid))
            if why:
                failing.append((cid, ints, why))
            if model and impl.get(cid) != model.get(cid):
                disagreements.append((cid, ints, impl.get(cid), model.get(cid)))
    C.log("%d cases (%d corpus): %d disagreements, %d direct property failures (%.1fs)" % (
        len(cases), len(corpus), len(disagreements), len(failing), timer.s()))

    # ---- verdict ----
    known = [k for k in C.load_known(ID) if k.get("status") == "known"]
    violations = []
    if failing:
        def size(x):
            d = decode_case(x[1])
            if d[0] == "graph":
                return (0, len(d[1]), sum(len(r) for r in d[1]), x[1])
            return (1, len(x[1]), 0, x[1])
        cid, ints, why = min(failing, key=size)
        small = list(ints)
        d = decode_case(small)
        if d[0] == "graph" and model_ok:
            # every graph on <= 4 fields is in the run, so the minimum over the failures is already minimal there;
            # larger graphs are shrunk against the set of observed failures
            failing_graphs = {tuple(tuple(r) for r in decode_case(i)[1]) for _, i, _ in failing if i[0] == 0}
            cur = d[1]
            improved = True
            while improved:
                improved = False
                for cand in shrink_graph(cur):
                    if tuple(tuple(r) for r in cand) in failing_graphs:
                        cur, improved = cand, True
                        break
            small = enc_graph(cur)
            cid2 = [c for c, i in cases if i == small]
            cid = cid2[0] if cid2 else cid
        o = impl.get(cid)
        ship = run_model_cases([("f", small)], "c11s", "final").get("f") if model_ok else None
        mo = model.get(cid) if model else None
        classes = Counter()
        for c, i, w in failing:
            dd = decode_case(i)
            if dd[0] == "graph":
                classes["requires graph on %d fields: a field validated before one it requires" % len(dd[1])] += 1
            else:
                classes["program run (%s): %s" % (tags.get(c, "?"), w[:70])] += 1
        rp = C.write_replay(ID, {
            "property": ID, "kind": "failing-input", "case_id": cid, "case": small,
            "case_decoded": describe(small), "why": predicate(small, o) or why,
            "impl_observation": o, "model_observation": mo,
            "shipped_algorithm_model_observation": ship,
            "note": ("the model of the shipped insertion procedure (validate.rs 256-286, coq/Dispatch/ReqOrder.v order_shipped) "
                     "reproduces the implementation's order exactly" if ship is not None and ship == o else None),
            "observation_format": "graph: validation order as field positions; run: [code, trace events...]",
            "replay_cmd": "bin/check %s --replay <this file>" % ID,
            "also_failing": [{"case_id": c, "decoded": describe(i), "why": w} for c, i, w in failing[:25]],
            "failing_total": len(failing), "failure_classes": dict(classes.most_common(12)),
        })
        violations.append("VIOLATION property=%s replay=%s" % (ID, os.path.relpath(rp, C.VERIF)))
    elif disagreements or broken:
        what = [b[0] for b in broken]
        if disagreements:
            what.append("correspondence model(run_%s) vs implementation (generated package gen_c11): %d of %d cases differ" % (
                ENTRY, len(disagreements), len(cases)))
        payload = {
            "property": ID, "kind": "no-failing-input-found", "no_longer_checks": what,
            "details": [{"what": b[0], "log": b[1]} for b in broken],
            "searched": "%d corpus + %d generated cases evaluated against the property predicate on the implementation; none failed" % (
                len(corpus), len(cases) - len(corpus_cases)),
        }
        if disagreements:
            cid, ints, a, b = min(disagreements, key=lambda x: len(x[1]))
            payload.update({"case_id": cid, "case": ints, "case_decoded": describe(ints),
                            "impl_observation": a, "model_observation": b})
        rp = C.write_replay(ID, payload)
        violations.append("VIOLATION property=%s replay=%s no-failing-input-found" % (ID, os.path.relpath(rp, C.VERIF)))
    for k in known:
        C.log("note: known finding %s is listed for %s but this check has no class for it" % (k["id"], ID))

    # ---- evidence ----
    nontriv = set()
    for cid, ints in cases:
        if impl.get(cid) is not None and nontrivial(ints, impl.get(cid)):
            nontriv.add(tuple(ints))
    picks = [c for c in graph_cases if sum(c[1][2:]) > 3][:1] + [c for c in run_cases if tags.get(c[0]) == "armed"][:2]
    samples = [{"case": describe(ints), "impl_observation": impl.get(c), "model_observation": model.get(c)} for c, ints in picks]
    ev = {
        "property_id": ID, "tier": tier, "seed": seed, "level": "proof",
        "coverage": {
            "obligations": max(len(thms), 1),
            "discharged": len(thms) if not broken else 0,
            "checker_cmd": "make -C coq %s && coqc coq/Pins/%s.v (Check <thm> : <pinned statement>; Print Assumptions <thm>)" % (
                " ".join(COQ_TARGETS), ID),
            "trusted_base": list(TRUSTED),
            "theorems": thms,
            "evaluations": len(cases),
            "distinct_nontrivial": len(nontriv),
            "rule": RULE,
            "samples": samples,
            "programs": len(CATALOGUE),
            "graph_structs_compiled": len(gid_of),
            "graphs_exhaustive_upto_fields": 5 if tier == "thorough" else 4,
            "cyclic_requires_rejected": cyc,
            "traces_validated_against_impl": len(cases) - len(disagreements) if impl and model else 0,
            "disagreements": len(disagreements),
            "direct_property_failures": len(failing),
            "known_findings_reproduced": [],
            "input_distribution": distribution(cases, tags, impl) if impl else {},
            "corpus_cases": len(corpus),
        },
        "assumptions": list(ASSUMPTIONS),
        "wall_s": timer.s(),
        "violations": len(violations),
    }
    C.write_evidence(ID, ev)
    if tier == "thorough":
        # dozens of large shard binaries: do not leave them in the shared target directory
        for sub in ("debug", os.path.join("debug", "deps")):
            dd = os.path.join(TARGET_DIR, sub)
            if os.path.isdir(dd):
                for fn in os.listdir(dd):
                    if fn.startswith("c11_gs"):
                        os.remove(os.path.join(dd, fn))
    for v in violations:
        print(v)
    C.log("%s %s: %s in %.1fs" % (ID, tier, "VIOLATION" if violations else "ok", timer.s()))
    return 1 if violations else 0
