"""C17: plain-Python reading of star_frame IDL JSON, written independently of the Coq model:
  * conversion of IDL types / account sets into the model's integer encodings (runner input);
  * a decoder that walks the IDL JSON directly (the independent predicate of the layout checks);
  * a generator of random values + their bytes following an IDL type (drives the real parsers of shipped types);
  * the account-list flattening by field paths (the independent predicate of the account checks);
  * a tokenizer of Rust `{:?}` output (leaf values, in order);
  * the hand-written FULL layouts (`mf_*`) of the types that use `#[type_to_idl(skip)]`: values + bytes of the whole
    runtime layout, which part of it the IDL is expected to describe, and that part as a normal form to compare with
    `Idl.view` (none of the `mf_*` functions looks at an IDL)."""
import re

PRIMS = ["Bool", "U8", "I8", "U16", "I16", "U32", "I32", "F32", "U64", "I64", "F64", "U128", "I128", "String", "Pubkey",
         "RemainingBytes"]
PRIM_SIZE = {"Bool": 1, "U8": 1, "I8": 1, "U16": 2, "I16": 2, "U32": 4, "I32": 4, "F32": 4, "U64": 8, "I64": 8,
             "F64": 8, "U128": 16, "I128": 16, "Pubkey": 32}
UNSIGNED = {"U8", "U16", "U32", "U64", "U128"}
SIGNED = {"I8", "I16", "I32", "I64", "I128"}
ALPH = "123456789ABCDEFGHJKLMNPQRSTUVWXYZabcdefghijkmnopqrstuvwxyz"


class Unsupported(Exception):
    pass


def b58enc(b):
    n = int.from_bytes(bytes(b), "big")
    s = ""
    while n:
        n, r = divmod(n, 58)
        s = ALPH[r] + s
    z = 0
    for x in b:
        if x == 0:
            z += 1
        else:
            break
    return "1" * z + s


def b58dec(s, size=32):
    n = 0
    for ch in s:
        n = n * 58 + ALPH.index(ch)
    return list(n.to_bytes(size, "big"))


def le(n, w):
    return [(n >> (8 * i)) & 0xFF for i in range(w)]


def unle(bs):
    return sum(b << (8 * i) for i, b in enumerate(bs))


def kind(t):
    if isinstance(t, str):
        return t, None
    (k, v), = t.items()
    return k, v


class Idl:
    """one program's IdlDefinition (parsed JSON)"""

    def __init__(self, idl):
        self.idl = idl
        self.types = dict(idl["types"])
        self.types.update(idl.get("external_types", {}))
        self.order = sorted(self.types)
        self.index = {k: i for i, k in enumerate(self.order)}

    def resolve(self, t):
        k, v = kind(t)
        seen = 0
        while k in ("Defined", "FixedPoint"):
            if k == "Defined":
                if v["source"] not in self.types:
                    raise Unsupported("undefined type " + v["source"])
                t = self.types[v["source"]]["type_def"]
            else:
                t = v["ty"]
            k, v = kind(t)
            seen += 1
            if seen > 64:
                raise Unsupported("cyclic definitions")
        return t

    # ---- model encodings -------------------------------------------------------------------------
    def enc_ty(self, t):
        k, v = kind(t)
        if k in PRIMS:
            return [0, PRIMS.index(k)]
        if k == "Defined":
            if v["source"] not in self.index:
                raise Unsupported("undefined type " + v["source"])
            return [1, self.index[v["source"]]]
        if k == "FixedPoint":
            return self.enc_ty(v["ty"])
        if k == "Option":
            return [2, 1 if v["fixed"] else 0] + self.enc_ty(v["ty"])
        if k == "List":
            return [3] + self.enc_ty(v["len_ty"]) + self.enc_ty(v["item_ty"])
        if k == "UnsizedList":
            return [4] + self.enc_ty(v["len_ty"]) + self.enc_ty(v["offset_ty"]) + self.enc_ty(v["item_ty"])
        if k == "Set":
            return [5] + self.enc_ty(v["len_ty"]) + self.enc_ty(v["item_ty"])
        if k == "Map":
            return [6] + self.enc_ty(v["len_ty"]) + self.enc_ty(v["key_ty"]) + self.enc_ty(v["value_ty"])
        if k == "Array":
            return [7, v[1]] + self.enc_ty(v[0])
        if k == "Struct":
            out = [8, len(v)]
            for f in v:
                out += self.enc_ty(f["type_def"])
            return out
        if k == "Enum":
            out = [9] + self.enc_ty(v["size"]) + [len(v["variants"])]
            for x in v["variants"]:
                out += [len(x["discriminant"])] + list(x["discriminant"])
                out += [0] if x["type_def"] is None else [1] + self.enc_ty(x["type_def"])
            return out
        raise Unsupported("type constructor " + k)

    def enc_defs(self):
        out = [len(self.order)]
        for k in self.order:
            out += self.enc_ty(self.types[k]["type_def"])
        return out

    # ---- the independent decoder -------------------------------------------------------------------
    def num_width(self, t):
        k, _ = kind(self.resolve_fp(t))
        if k not in UNSIGNED:
            raise Unsupported("length / size type " + k)
        return PRIM_SIZE[k]

    def resolve_fp(self, t):
        k, v = kind(t)
        while k == "FixedPoint":
            t = v["ty"]
            k, v = kind(t)
        return t

    def decode(self, t, bs, pos=0):
        """returns (tree, leaves, newpos); tree in the model's `enc_ival` integer form; leaves = semantic leaf values in
        the order Rust's Debug prints the owned value; raises ValueError when the bytes do not fit"""
        k, v = kind(t)
        if k == "FixedPoint":
            return self.decode(v["ty"], bs, pos)
        if k == "Defined":
            if v["source"] not in self.types:
                raise ValueError("undefined")
            ty = self.types[v["source"]]
            tree, leaves, p = self.decode(ty["type_def"], bs, pos)
            return tree, leaves, p
        if k == "String":
            n, p = self.take_int(bs, pos, 4)
            s = self.take(bs, p, n)
            return [0, n] + s, [("str", bytes(s).decode("utf-8", "replace"))], p + n
        if k == "RemainingBytes":
            s = bs[pos:]
            return [0, len(s)] + list(s), [("int", b) for b in s], len(bs)
        if k in PRIM_SIZE:
            n = PRIM_SIZE[k]
            s = self.take(bs, pos, n)
            return [0, n] + s, [self.leaf(k, s)], pos + n
        if k == "Option":
            if v["fixed"]:
                raise Unsupported("fixed option")
            b = self.take(bs, pos, 1)[0]
            if b == 0:
                return [4], [("ident", "None")], pos + 1
            if b != 1:
                raise ValueError("option tag")
            tree, leaves, p = self.decode(v["ty"], bs, pos + 1)
            return [5] + tree, leaves, p
        if k in ("List", "Set"):
            w = self.num_width(v["len_ty"])
            n, p = self.take_int(bs, pos, w)
            return self.items(v["item_ty"], n, bs, p)
        if k == "Array":
            return self.items(v[0], v[1], bs, pos)
        if k == "Map":
            w = self.num_width(v["len_ty"])
            n, p = self.take_int(bs, pos, w)
            out, leaves = [1, n], []
            for _ in range(n):
                kt, kl, p = self.decode(v["key_ty"], bs, p)
                vt, vl, p = self.decode(v["value_ty"], bs, p)
                out += [2, 2] + kt + vt
                leaves += kl + vl
            return out, leaves, p
        if k == "UnsizedList":
            usz, ul, p = self.decode(v["len_ty"], bs, pos)
            w = self.num_width(v["len_ty"])
            n, p1 = self.take_int(bs, p, w)
            offs, off_leaves = [1, n], []
            p = p1
            for _ in range(n):
                t1, l1, p = self.decode(v["offset_ty"], bs, p)
                offs += t1
                off_leaves.append(l1)
            n2, p = self.take_int(bs, p, w)
            items, leaves = [1, n2], []
            for i in range(n2):
                t1, l1, p = self.decode(v["item_ty"], bs, p)
                items += t1
                # Debug of the owned value: Vec<item> (no offsets) or BTreeMap<key, item> (the key sits beside the offset)
                key_leaves = off_leaves[i][1:] if i < len(off_leaves) else []
                leaves += key_leaves + l1
            return [2, 3] + usz + offs + items, leaves, p
        if k == "Struct":
            out, leaves, p = [2, len(v)], [], pos
            for f in v:
                t1, l1, p = self.decode(f["type_def"], bs, p)
                out += t1
                leaves += l1
            return out, leaves, p
        if k == "Enum":
            w = self.num_width(v["size"])
            d, p = self.take_int(bs, pos, w)
            for x in v["variants"]:
                if unle(x["discriminant"]) == d:
                    if x["type_def"] is None:
                        return [3, d, 0], [("ident", x["name"])], p
                    kk, fs = kind(x["type_def"])
                    if kk != "Struct":
                        raise Unsupported("enum variant payload " + kk)
                    out, leaves = [2, len(fs)], []
                    for f in fs:
                        t1, l1, p = self.decode(f["type_def"], bs, p)
                        out += t1
                        leaves += l1
                    return [3, d, 1] + out, leaves, p
            raise ValueError("no variant %d" % d)
        raise Unsupported("type constructor " + k)

    def items(self, it, n, bs, p):
        out, leaves = [1, n], []
        for _ in range(n):
            t1, l1, p = self.decode(it, bs, p)
            out += t1
            leaves += l1
        return out, leaves, p

    @staticmethod
    def take(bs, pos, n):
        if n < 0 or pos + n > len(bs):
            raise ValueError("short input")
        return list(bs[pos:pos + n])

    def take_int(self, bs, pos, w):
        return unle(self.take(bs, pos, w)), pos + w

    @staticmethod
    def leaf(k, s):
        if k == "Bool":
            return ("ident", "true" if s[0] == 1 else "false" if s[0] == 0 else "badbool")
        if k == "Pubkey":
            return ("key", b58enc(s))
        if k in UNSIGNED:
            return ("int", unle(s))
        if k in SIGNED:
            n = unle(s)
            return ("int", n - (1 << (8 * len(s))) if n >> (8 * len(s) - 1) else n)
        return ("float", bytes(s).hex())

    # ---- a normal form of a described type (names + shapes, definitions inlined) -----------------------
    def view(self, t, depth=0):
        if depth > 64:
            raise Unsupported("cyclic definitions")
        k, v = kind(t)
        if k == "FixedPoint":
            return self.view(v["ty"], depth + 1)
        if k == "Defined":
            if v["source"] not in self.types:
                raise Unsupported("undefined type " + v["source"])
            return self.view(self.types[v["source"]]["type_def"], depth + 1)
        if k in PRIMS:
            return ["prim", k]
        if k == "Array":
            return ["array", self.view(v[0], depth + 1), v[1]]
        if k == "Struct":
            return ["struct", [[f["path"], self.view(f["type_def"], depth + 1)] for f in v]]
        if k == "Enum":
            return ["enum", self.num_width(v["size"]),
                    [[x["name"], unle(x["discriminant"]), None if x["type_def"] is None else self.view(x["type_def"], depth + 1)]
                     for x in v["variants"]]]
        return ["other", k]

    # ---- a generator of values following the IDL -------------------------------------------------
    def gen(self, t, rng, depth=0, last=True):
        """bytes of a random value of the described type (sets / maps with strictly ascending keys, ASCII strings)"""
        k, v = kind(t)
        if k == "FixedPoint":
            return self.gen(v["ty"], rng, depth, last)
        if k == "Defined":
            return self.gen(self.types[v["source"]]["type_def"], rng, depth, last)
        if k == "String":
            n = rng.choice([0, 1, 3, rng.range(0, 12)])
            s = [rng.choice(list(b"abcXYZ019_ -")) for _ in range(n)]
            return le(n, 4) + s
        if k == "RemainingBytes":
            if not last:
                raise Unsupported("RemainingBytes not in tail position")
            return rng.bytes(rng.choice([0, 1, 5, rng.range(0, 20)]))
        if k == "Bool":
            return [rng.below(2)]
        if k in ("F32", "F64"):
            import struct
            x = rng.choice([0.0, 1.5, -2.25, 1024.0])
            return list(struct.pack("<f" if k == "F32" else "<d", x))
        if k in PRIM_SIZE:
            n = PRIM_SIZE[k]
            return rng.choice([[0] * n, [255] * n, le(rng.below(256), n), rng.bytes(n), rng.bytes(n)])
        if k == "Option":
            if rng.below(2) == 0:
                return [0]
            return [1] + self.gen(v["ty"], rng, depth + 1, last)
        if k == "List":
            n = self.count(rng, depth, v["len_ty"])
            out = le(n, self.num_width(v["len_ty"]))
            for i in range(n):
                out += self.gen(v["item_ty"], rng, depth + 1, False)
            return out
        if k == "Array":
            out = []
            for i in range(v[1]):
                out += self.gen(v[0], rng, depth + 1, False)
            return out
        if k in ("Set", "Map"):
            kt = v["item_ty"] if k == "Set" else v["key_ty"]
            n = self.count(rng, depth, v["len_ty"])
            keys = {}
            for _ in range(n):
                kb = self.gen(kt, rng, depth + 1, False)
                keys[self.ord_key(kt, kb)] = kb
            out = le(len(keys), self.num_width(v["len_ty"]))
            for ok in sorted(keys):
                out += keys[ok]
                if k == "Map":
                    out += self.gen(v["value_ty"], rng, depth + 1, False)
            return out
        if k == "UnsizedList":
            w = self.num_width(v["len_ty"])
            ok_, ov = kind(self.resolve(v["offset_ty"]))
            n = self.count(rng, depth, v["len_ty"], small=True)
            items = [self.gen(v["item_ty"], rng, depth + 1, False) for _ in range(n)]
            keys = None
            if ok_ == "Struct":
                if len(ov) != 2:
                    raise Unsupported("offset struct")
                kt = ov[1]["type_def"]
                ks = {}
                for _ in range(n):
                    kb = self.gen(kt, rng, depth + 1, False)
                    ks[self.ord_key(kt, kb)] = kb
                keys = [ks[o] for o in sorted(ks)]
                items = items[:len(keys)]
            elif ok_ != "U32":
                raise Unsupported("offset type " + ok_)
            total = sum(len(x) for x in items)
            out = le(total, w) + le(len(items), w)
            off = 0
            for i, x in enumerate(items):
                out += le(off, 4) + (keys[i] if keys is not None else [])
                off += len(x)
            out += le(len(items), w)
            for x in items:
                out += x
            return out
        if k == "Struct":
            out = []
            for i, f in enumerate(v):
                out += self.gen(f["type_def"], rng, depth + 1, last and i == len(v) - 1)
            return out
        if k == "Enum":
            x = rng.choice(v["variants"])
            w = self.num_width(v["size"])
            out = list(x["discriminant"]) + [0] * (w - len(x["discriminant"]))
            if x["type_def"] is not None:
                kk, fs = kind(x["type_def"])
                for i, f in enumerate(fs):
                    out += self.gen(f["type_def"], rng, depth + 1, last and i == len(fs) - 1)
            return out
        raise Unsupported("type constructor " + k)

    def count(self, rng, depth, len_ty, small=False):
        cap = 256 ** self.num_width(len_ty) - 1
        n = rng.choice([0, 1, 2, 3] if (small or depth > 1) else [0, 0, 1, 2, 3, rng.range(0, 9)])
        return min(n, cap)

    def ord_key(self, t, bs):
        """a Python key ordering like Rust's derived / numeric Ord of the described key type"""
        k, v = kind(self.resolve(t))
        if k in UNSIGNED:
            return (unle(bs),)
        if k in SIGNED:
            n = unle(bs)
            return (n - (1 << (8 * len(bs))) if n >> (8 * len(bs) - 1) else n,)
        if k in ("Pubkey", "Bool"):
            return tuple(bs)
        if k == "Array":
            sz = len(bs) // max(1, v[1])
            return tuple(self.ord_key(v[0], bs[i * sz:(i + 1) * sz]) for i in range(v[1]))
        if k == "Struct":
            out, p = [], 0
            for f in v:
                _, _, q = self.decode(f["type_def"], bs, p)
                out.append(self.ord_key(f["type_def"], bs[p:q]))
                p = q
            return tuple(out)
        if k == "Enum":
            w = self.num_width(v["size"])
            d = unle(bs[:w])
            for i, x in enumerate(v["variants"]):
                if unle(x["discriminant"]) == d:
                    return (i,)
        raise Unsupported("key type " + k)

    # ---- account sets ------------------------------------------------------------------------------
    def enc_key(self, source):
        return [1, len(source)] + [ord(c) for c in source]

    def enc_aset(self, d):
        k, v = kind(d)
        if k == "Single":
            out = [0, int(v["signer"]), int(v["writable"]), int(v.get("optional", False)), int(v.get("is_init", False))]
            if v.get("address"):
                out += [1, int.from_bytes(bytes(b58dec(v["address"])), "little")]
            else:
                out += [0]
            return out
        if k == "Defined":
            return self.enc_key(v["source"])
        if k == "Struct":
            out = [2, len(v)]
            for f in v:
                out += self.enc_aset(f["account_set_def"])
            return out
        if k == "Many":
            return [3, v["min"]] + ([0] if v["max"] is None else [1, v["max"]]) + self.enc_aset(v["account_set"])
        if k == "Or":
            out = [4, len(v)]
            for a in v:
                out += self.enc_aset(a)
            return out
        raise Unsupported("account set constructor " + k)

    def enc_table(self):
        sets = self.idl["account_sets"]
        out = [len(sets)]
        for k in sorted(sets):
            out += [len(k)] + [ord(c) for c in k] + self.enc_aset(sets[k]["account_set_def"])
        return out

    def inline_aset(self, d, depth=0):
        """the definition with every Defined reference replaced by its definition (comparison up to key names)"""
        if depth > 64:
            raise Unsupported("cyclic account sets")
        k, v = kind(d)
        if k == "Single":
            a = v.get("address")
            return ("single", bool(v["signer"]), bool(v["writable"]), bool(v.get("optional", False)), bool(v.get("is_init", False)),
                    int.from_bytes(bytes(b58dec(a)), "little") if a else None)
        if k == "Defined":
            s = self.idl["account_sets"].get(v["source"])
            if s is None:
                raise Unsupported("undefined account set " + v["source"])
            return self.inline_aset(s["account_set_def"], depth + 1)
        if k == "Struct":
            return ("struct",) + tuple(self.inline_aset(f["account_set_def"], depth + 1) for f in v)
        if k == "Many":
            return ("many", v["min"], v["max"], self.inline_aset(v["account_set"], depth + 1))
        if k == "Or":
            return ("or",) + tuple(self.inline_aset(a, depth + 1) for a in v)
        raise Unsupported(k)

    def flatten_paths(self, d, choices, program_id_hex):
        """the account list an IDL-following client builds for the recorded choices, matched BY FIELD PATH.
        returns (list of [key hex, signer, writable], list of problems)"""
        by_path = {}
        for c in choices:
            by_path.setdefault(c[1], []).append(c)
        out, errs = [], []
        self._flat(d, [], by_path, program_id_hex, out, errs, 0)
        return out, errs

    def flatten_named(self, d, choices, program_id_hex):
        """`flatten_paths` plus, for every entry of the list, the IDL field path (name parts, the index inside a
        variable-length group left out) of the leaf account it was built for: (list, list of name-part lists, problems)"""
        by_path = {}
        for c in choices:
            by_path.setdefault(c[1], []).append(c)
        out, errs, names = [], [], []
        self._flat(d, [], by_path, program_id_hex, out, errs, 0, names, [])
        return out, names, errs

    def _lookup(self, by_path, path):
        """choices recorded at this path; a one-field struct collapsed by the IDL leaves its field name in the path"""
        p = ".".join(path)
        if p in by_path:
            return by_path[p], p
        pre = p + "." if p else ""
        cands = sorted({k for k in by_path if k.startswith(pre)})
        # collapse chains of single named fields: every candidate must extend one another along a single chain
        if cands and all(c == cands[0] for c in cands):
            return by_path[cands[0]], cands[0]
        return None, p

    def _flat(self, d, path, by_path, pid, out, errs, depth, names=None, npath=None):
        """`path`: where the client's choices are looked up (inside a variable-length group it carries the element index);
        `npath` (only when `names` is collected): the IDL field names down to this set.  `names` is kept as long as `out`:
        the nested calls have labelled their own entries when they return, what is left was added by this node itself"""
        self._flat1(d, path, by_path, pid, out, errs, depth, names, npath)
        if names is not None:
            names.extend([list(npath)] * (len(out) - len(names)))

    def _flat1(self, d, path, by_path, pid, out, errs, depth, names, npath):
        if depth > 64:
            errs.append("cyclic account sets")
            return
        k, v = kind(d)
        if k == "Defined":
            s = self.idl["account_sets"].get(v["source"])
            if s is None:
                errs.append("undefined set " + v["source"])
                return
            return self._flat(s["account_set_def"], path, by_path, pid, out, errs, depth + 1, names, npath)
        if k == "Single":
            cs, p = self._lookup(by_path, path)
            if cs is None:
                errs.append("no client choice at path %r" % p)
                return
            kinds = [c[0] for c in cs]
            keyc = [c for c in cs if c[0] == "K"]
            addr = bytes(b58dec(v["address"])).hex() if v.get("address") else None
            if v.get("optional", False):
                if kinds[0] == "N":
                    out.append([pid, False, False])
                    return
                kinds = kinds[1:]          # the outer Some
            if kinds and kinds[0] == "K":
                out.append([keyc[0][2], bool(v["signer"]), bool(v["writable"])])
            elif kinds and kinds[0] == "N" and addr is not None:
                out.append([addr, bool(v["signer"]), bool(v["writable"])])
            elif kinds[:2] == ["S", "K"] and addr is not None:
                out.append([keyc[0][2], bool(v["signer"]), bool(v["writable"])])
            else:
                errs.append("client choice %s at %r does not fit the IDL account (address %s, optional %s)" % (
                    kinds, p, addr is not None, v.get("optional", False)))
            return
        if k == "Struct":
            for i, f in enumerate(v):
                seg = f["path"] if f["path"] is not None else str(i)
                self._flat(f["account_set_def"], path + [seg], by_path, pid, out, errs, depth + 1, names,
                           None if names is None else npath + [seg])
            return
        if k == "Many":
            cs, p = self._lookup(by_path, path)
            lens = [c for c in (cs or []) if c[0] == "L"]
            if not lens:
                errs.append("no length choice at path %r" % p)
                return
            n = lens[0][2]
            if n < v["min"] or (v["max"] is not None and n > v["max"]):
                errs.append("%d elements at %r outside [%s, %s]" % (n, p, v["min"], v["max"]))
            for i in range(n):
                self._flat(v["account_set"], p.split(".") + [str(i)] if p else [str(i)], by_path, pid, out, errs, depth + 1,
                           names, npath)
            return
        if k == "Or":
            cs, p = self._lookup(by_path, path)
            if len(v) != 2 or cs is None:
                errs.append("Or with %d alternatives / no choice at %r" % (len(v), p))
                return
            if cs[0][0] == "N":
                kk, vv = kind(v[1])
                if kk == "Struct" and vv == []:
                    return
                if kk == "Single" and vv.get("address"):
                    out.append([bytes(b58dec(vv["address"])).hex(), bool(vv["signer"]), bool(vv["writable"])])
                    return
                errs.append("Or: unexpected None alternative at %r" % p)
                return
            if cs[0][0] == "S":
                sub = {q: (c[1:] if q == p else c) for q, c in by_path.items()}
                return self._flat(v[0], path, sub, pid, out, errs, depth + 1, names, npath)
            errs.append("Or: choice %s at %r" % (cs[0][0], p))
            return
        errs.append("unknown account set constructor " + k)

    def singles_in_order(self, d, path=None, depth=0):
        """(path name parts, single dict, in_many) leaves in declaration order"""
        path = path or []
        k, v = kind(d)
        if depth > 64:
            raise Unsupported("cyclic")
        if k == "Defined":
            s = self.idl["account_sets"].get(v["source"])
            if s is None:
                raise Unsupported("undefined set")
            return self.singles_in_order(s["account_set_def"], path, depth + 1)
        if k == "Single":
            return [(path, v, False)]
        if k == "Struct":
            out = []
            for i, f in enumerate(v):
                out += self.singles_in_order(f["account_set_def"], path + [f["path"] if f["path"] is not None else str(i)],
                                             depth + 1)
            return out
        if k == "Many":
            return [(p, s, True) for p, s, _ in self.singles_in_order(v["account_set"], path, depth + 1)]
        raise Unsupported("Or")

    def aset_shape(self, d, depth=0):
        """the nesting of an account set as text: F = one fixed account, M = a variable-length group without an upper
        bound, M<n> = one of at most n elements, ( .. ) = a struct's fields in declaration order, O( .. | .. ) = Or"""
        if depth > 64:
            raise Unsupported("cyclic")
        k, v = kind(d)
        if k == "Defined":
            s = self.idl["account_sets"].get(v["source"])
            if s is None:
                raise Unsupported("undefined set")
            return self.aset_shape(s["account_set_def"], depth + 1)
        if k == "Single":
            return "F"
        if k == "Many":
            inner = self.aset_shape(v["account_set"], depth + 1)
            return "M" + ("" if v["max"] is None else str(v["max"])) + ("" if inner == "F" else "[" + inner + "]")
        if k == "Struct":
            return "(" + " ".join(self.aset_shape(f["account_set_def"], depth + 1) for f in v) + ")"
        if k == "Or":
            return "O(" + " | ".join(self.aset_shape(a, depth + 1) for a in v) + ")"
        raise Unsupported(k)


def tokens_of(choices):
    out = []
    for c in choices:
        if c[0] == "K":
            out += [0, int.from_bytes(bytes.fromhex(c[2]), "little")]
        elif c[0] == "N":
            out += [1]
        elif c[0] == "S":
            out += [2]
        else:
            out += [3, c[2]]
    return out


# ---- Rust Debug output -----------------------------------------------------------------------------
TOK = re.compile(r'"((?:[^"\\\\]|\\\\.)*)"|(-?\d+\.\d+(?:e-?\d+)?)(?![A-Za-z0-9_])|(-?[A-Za-z0-9_]+)|(\S)')


def debug_leaves(text, unit_name=None):
    """leaf values of a `{:?}` rendering, in order: ("int", n) ("str", s) ("key", base58) ("ident", name) ("float", text).
    identifiers followed by `{`, `(`, `:` or `<` (type / field names) are skipped; a unit struct prints as its name"""
    if unit_name is not None and text.strip() == unit_name:
        return []
    text = strip_phantom(text)
    toks = [(m.group(0), m) for m in TOK.finditer(text)]
    out = []
    for i, (s, m) in enumerate(toks):
        nxt = toks[i + 1][0] if i + 1 < len(toks) else ""
        if m.group(1) is not None:
            out.append(("str", m.group(1)))
        elif m.group(2) is not None:
            out.append(("float", s))
        elif m.group(3) is not None:
            w = s
            if len(w) >= 32 and all(ch in ALPH for ch in w):
                out.append(("key", w))             # a base58 public key (may consist of digits only)
            elif re.fullmatch(r"-?\d+", w):
                out.append(("int", int(w)))
            else:
                if nxt in ("{", "(", ":", "<"):
                    continue
                out.append(("ident", w))
    return out


def same_leaves(idl_leaves, parser_leaves):
    """leaf lists equal, reading an all-digit token of 32+ characters in the Debug text (which `debug_leaves` has to call
    a base58 key: such keys exist) as the decimal integer it may just as well be (u128 / i128 values of 32..39 digits without
    a `0`) when the IDL side has an integer there"""
    if len(idl_leaves) != len(parser_leaves):
        return False
    for a, b in zip(idl_leaves, parser_leaves):
        a, b = tuple(a), tuple(b)
        if a == b:
            continue
        if a[0] == "int" and b[0] == "key" and b[1].isdigit() and int(b[1]) == a[1]:
            continue
        return False
    return True


def strip_phantom(text):
    """remove `PhantomData<...>` (type arguments are not data)"""
    out, i = [], 0
    while True:
        j = text.find("PhantomData<", i)
        if j < 0:
            out.append(text[i:])
            return "".join(out)
        out.append(text[i:j])
        k, depth = j + len("PhantomData<"), 1
        while k < len(text) and depth:
            if text[k] == "<":
                depth += 1
            elif text[k] == ">" and text[k - 1] != "-":
                depth -= 1
            k += 1
        i = k


def camel(name):
    """codama's CamelCaseString of an identifier (words split at case changes / separators, first lower-cased)"""
    words = re.findall(r"[A-Z]+(?=[A-Z][a-z])|[A-Z]?[a-z]+|[A-Z]+|\d+", name.replace("_", " ").replace("-", " "))
    if not words:
        return ""
    return words[0].lower() + "".join(w[:1].upper() + w[1:].lower() for w in words[1:])


# ---- hand-written full layouts of types that use #[type_to_idl(skip)] ------------------------------------
# layout := "u8" | ... | "pubkey" | {"array": [layout, n]} | {"struct": [[field, layout]..], "skip": k | null}
#         | {"enum": [[variant, discriminant, null | struct layout]..]}        (harness_c17/pdaprog/src/lib.rs)
# `#[type_to_idl(skip)]` on field k: "this field and all remaining fields will be skipped in the IDL definition", so the
# described part of a struct is its fields [0, k) and an IDL-following reader leaves the bytes of fields [k, n) unread.
MF_PRIM = {"bool": "Bool", "u8": "U8", "i8": "I8", "u16": "U16", "i16": "I16", "u32": "U32", "i32": "I32", "u64": "U64",
           "i64": "I64", "u128": "U128", "i128": "I128", "pubkey": "Pubkey"}


def mf_kind(l):
    if isinstance(l, str):
        if l not in MF_PRIM:
            raise Unsupported("manifest primitive %r" % (l,))
        return "prim"
    if isinstance(l, dict):
        for k in ("array", "struct", "enum"):
            if k in l:
                return k
    raise Unsupported("manifest layout %r" % (l,))


def mf_described(l):
    """(described fields, hidden fields) of a struct layout"""
    fs, k = l["struct"], l.get("skip")
    if k is None:
        return fs, []
    if not isinstance(k, int) or not 0 <= k < len(fs):
        raise Unsupported("skip index %r of a struct with %d fields" % (k, len(fs)))
    return fs[:k], fs[k:]


def mf_hides(l):
    """does a value of this layout end in bytes the IDL does not describe"""
    k = mf_kind(l)
    if k == "prim":
        return False
    if k == "array":
        if mf_hides(l["array"][0]):
            raise Unsupported("array of a type with a hidden suffix")
        return False
    if k == "struct":
        shown, hidden = mf_described(l)
        for _n, f in shown[:-1]:
            if mf_hides(f):
                raise Unsupported("a type with a hidden suffix in front of another described field")
        for _n, f in hidden:
            mf_hides(f)
        return bool(hidden) or (bool(shown) and mf_hides(shown[-1][1]))
    return any(v[2] is not None and mf_hides(v[2]) for v in l["enum"])


def mf_view(l):
    """what the IDL is expected to say (the normal form of Idl.view)"""
    k = mf_kind(l)
    if k == "prim":
        return ["prim", MF_PRIM[l]]
    if k == "array":
        return ["array", mf_view(l["array"][0]), l["array"][1]]
    if k == "struct":
        return ["struct", [[n, mf_view(f)] for n, f in mf_described(l)[0]]]
    return ["enum", 1, [[n, d, None if st is None else mf_view(st)] for n, d, st in l["enum"]]]


def mf_shapes(l, variant=False):
    """which positions of the attribute occur: {struct|variant}-skip-{first|middle|last}"""
    k = mf_kind(l)
    out = set()
    if k == "array":
        return mf_shapes(l["array"][0])
    if k == "struct":
        n, sk = len(l["struct"]), l.get("skip")
        if sk is not None:
            out.add("%s-skip-%s" % ("variant" if variant else "struct", "first" if sk == 0 else "last" if sk == n - 1 else "middle"))
        for _n, f in l["struct"]:
            out |= mf_shapes(f)
    elif k == "enum":
        for _n, _d, st in l["enum"]:
            if st is not None:
                out |= mf_shapes(st, True)
    return out


def mf_gen(l, rng):
    """a random value of the FULL layout: {"bytes": every byte the runtime (de)serialises, "leaves": every leaf value in
    Debug order, "shown": how many of the bytes an IDL-following reader is expected to consume, "shown_leaves": the values
    it is expected to read}"""
    k = mf_kind(l)
    if k == "prim":
        K = MF_PRIM[l]
        n = PRIM_SIZE[K]
        bs = [rng.below(2)] if K == "Bool" else rng.choice([[0] * n, [255] * n, le(rng.below(256), n), rng.bytes(n), rng.bytes(n)])
        lv = [Idl.leaf(K, bs)]
        return {"bytes": list(bs), "leaves": lv, "shown": n, "shown_leaves": lv}
    if k == "array":
        parts = [mf_gen(l["array"][0], rng) for _ in range(l["array"][1])]
        bs = [b for q in parts for b in q["bytes"]]
        lv = [x for q in parts for x in q["leaves"]]
        return {"bytes": bs, "leaves": lv, "shown": len(bs), "shown_leaves": lv}
    if k == "struct":
        shown, _hidden = mf_described(l)
        parts = [mf_gen(f, rng) for _n, f in l["struct"]]
        out = {"bytes": [b for q in parts for b in q["bytes"]], "leaves": [x for q in parts for x in q["leaves"]],
               "shown": 0, "shown_leaves": []}
        for i in range(len(shown)):
            last = i == len(shown) - 1
            out["shown"] += parts[i]["shown"] if last else len(parts[i]["bytes"])
            out["shown_leaves"] += parts[i]["shown_leaves"] if last else parts[i]["leaves"]
        return out
    n, d, st = rng.choice(l["enum"])
    if st is None:
        lv = [("ident", n)]
        return {"bytes": [d], "leaves": lv, "shown": 1, "shown_leaves": lv}
    q = mf_gen(st, rng)
    return {"bytes": [d] + q["bytes"], "leaves": q["leaves"], "shown": 1 + q["shown"], "shown_leaves": q["shown_leaves"]}
