"""Plain owned-model oracle for operation histories on unsized shapes (Vec / BTreeMap / BTreeSet / String
semantics, with the failure conditions of the public API) + the history generator.  Independent of the Coq model."""
import copy

from lib import unsized as U

E_INDEX, E_RANGE, E_TOPRIM, E_REALLOC = U.E_INDEX, U.E_RANGE, U.E_TOPRIM, U.E_REALLOC


class Oracle:
    def __init__(self, shape_index, ty, val, refuse):
        self.si, self.t, self.v = shape_index, ty, val
        self.cap = len(U.encode(ty, val)) + U.MAX_INC
        self.step = 0
        self.refuse = refuse

    def size(self):
        return len(U.encode(self.t, self.v))

    # ---- growth bookkeeping: returns None if allowed, else error code
    def request(self, delta):
        if delta <= 0:
            return None
        if self.step == self.refuse:
            return E_REALLOC
        if self.size() + delta > self.cap:
            return E_REALLOC
        return None


def node_at(t, v, tpath):
    """follow raw struct indices / element indices; returns (type, value) or None"""
    for i in tpath:
        if t[0] == "S":
            t, v = t[1][i], v[1][i]
        elif t[0] == "U":
            if i >= len(v[1]):
                return None
            t, v = t[1], v[1][i][1]
        elif t[0] == "E" and i == "V":
            t, v = dict(t[2])[v[1]], v[2]
        else:
            return None
    return t, v


def set_node(t, v, tpath, new):
    if not tpath:
        return new
    i = tpath[0]
    if t[0] == "S":
        fs = list(v[1])
        fs[i] = set_node(t[1][i], v[1][i], tpath[1:], new)
        return ("S", fs)
    if t[0] == "U":
        es = list(v[1])
        es[i] = (es[i][0], set_node(t[1], es[i][1], tpath[1:], new))
        return ("U", es)
    if t[0] == "E" and i == "V":
        return ("E", v[1], set_node(dict(t[2])[v[1]], v[2], tpath[1:], new))
    raise ValueError


def lower_bound(keys, k):
    for i, x in enumerate(keys):
        if x >= k:
            return i, x == k
    return len(keys), False


class Step:
    """result of applying one op to the oracle"""

    def __init__(self, kind, code=None, extra=None, state="unchanged", known=None):
        self.kind, self.code, self.extra, self.state, self.known = kind, code, extra, state, known


def apply(o, path_ops, ints):
    """apply the op encoded by `ints` (harness encoding) to oracle `o`; returns Step.  Mutates o.v on success."""
    t, v = o.t, o.v
    tpath = []          # indices into the python value tree
    rpath = []          # role path (raw struct indices, '*' for elements)
    l = list(ints)
    switched = False    # an enum variant switch (code 60) with a continuation has already been committed

    def cur():
        return node_at(o.t, o.v, tpath)

    def after_switch(st):
        """the result of the ops applied to the wrapper a variant setter returned: a failure leaves the switched value"""
        if switched and st.kind == "err" and st.state == "unchanged":
            st.state = "exact"
        return st

    while True:
        ct, cv = cur()
        role = U.role_at(o.si, rpath)
        code = l[0]
        if code == 60 and ct[0] == "E":
            # set_<variant d>(DefaultInit): the value becomes the variant's default value; a data variant's setter returns
            # the payload's wrapper, to which the remaining ints (if any) are applied
            d = l[1]
            l = l[2:]
            vts = dict(ct[2])
            if d not in vts:
                return Step("skip")
            nv = ("E", d, U.default_val(vts[d]))
            e = o.request(len(U.encode(ct, nv)) - len(U.encode(ct, cv)))
            if e:
                return after_switch(Step("err", e))
            o.v = set_node(o.t, o.v, tpath, nv)
            if not l or vts[d] == ("S", []):
                return Step("ok", extra=[])
            switched = True
            tpath.append("V")
            rpath.append("V")
            continue
        if code == 1:
            i = l[1]
            l = l[2:]
            if ct[0] == "E":
                # get(): descend into the payload if the live variant is the expected one
                if cv[1] != i:
                    return after_switch(Step("ok", extra=[-1]))
                if dict(ct[2])[i] == ("S", []):
                    return after_switch(Step("ok", extra=[-2]))
                tpath.append("V")
                rpath.append("V")
                continue
            if ct[0] == "S":
                tpath.append(i)
                rpath.append(i)
                continue
            if ct[0] == "U":
                if i >= len(cv[1]):
                    return after_switch(Step("err", E_INDEX))
                tpath.append(i)
                rpath.append("*")
                continue
            return Step("skip")
        if code == 2:
            key = l[1]
            l = l[2:]
            ut, uv = ct[1][0], cv[1][0]
            keys = [U.unle(k) for k, _ in uv[1]]
            idx, found = lower_bound(keys, key)
            if not found:
                return after_switch(Step("ok", extra=[-1]))
            tpath += [0, idx]
            rpath += [0, "*"]
            continue
        break

    return after_switch(_apply_leaf(o, tpath, rpath, l))


def _apply_leaf(o, tpath, rpath, l):
    """the operation `l` at the node the path leads to"""
    code = l[0]
    ct, cv = node_at(o.t, o.v, tpath)
    role = U.role_at(o.si, rpath)

    def commit(newv):
        o.v = set_node(o.t, o.v, tpath, newv)

    # ---- any node
    if code == 70:
        newv, _ = U.dec_val(l[1:])
        delta = len(U.encode(ct, newv)) - len(U.encode(ct, cv))
        e = o.request(delta)
        if e:
            return Step("err", e)
        commit(newv)
        return Step("ok", extra=[])
    if code == 71:
        kind = l[1]
        nv = U.init_val(ct, kind)
        delta = U.init_size(ct, kind) - len(U.encode(ct, cv))
        e = o.request(delta)
        if e:
            return Step("err", e)
        if nv[0] == "err":
            # the initializer fails after the container was resized: composite, only well-formedness is required
            return Step("err", nv[1], state="canonical", known="D16")
        commit(nv)
        return Step("ok", extra=[])
    if code == 72:
        b = l[2:2 + l[1]]
        fs = list(cv[1])
        fs[0] = ("B", b)
        commit(("S", fs))
        return Step("ok", extra=[])

    # ---- List
    if ct[0] == "L" and code in (10, 11, 12, 13, 14, 15):
        c, lw = ct[1], ct[2]
        esz = U.fsize(c)
        items = list(cv[1])
        if code in (10, 15):
            if code == 15:
                idx, n, r = len(items), 1, l[1:]
            else:
                idx, n, r = l[1], l[2], l[3:]
            new = []
            for _ in range(n):
                m = r[0]
                new.append(r[1:1 + m])
                r = r[1 + m:]
            if idx > len(items):
                return Step("err", E_INDEX)
            if len(items) + n >= 256 ** lw:
                return Step("err", E_TOPRIM)
            e = o.request(esz * n)
            if e:
                return Step("err", e)
            commit(("L", items[:idx] + new + items[idx:]))
            return Step("ok", extra=[])
        if code == 11:
            s, e_ = l[1], l[2]
            if s > e_:
                return Step("err", E_RANGE)
            if e_ > len(items):
                return Step("err", E_INDEX)
            commit(("L", items[:s] + items[e_:]))
            return Step("ok", extra=[])
        if code == 12:
            commit(("L", items[:-1]))
            return Step("ok", extra=[])
        if code == 13:
            commit(("L", []))
            return Step("ok", extra=[])
        if code == 14:
            idx = l[1]
            m = l[2]
            item = l[3:3 + m]
            if idx >= len(items):
                return Step("err", E_INDEX)
            items[idx] = item
            commit(("L", items))
            return Step("ok", extra=[])
    # ---- RemainingBytes
    if ct[0] == "R" and code in (20, 21):
        bs = list(cv[1])
        if code == 20:
            n = l[1]
            e = o.request(n - len(bs))
            if e:
                return Step("err", e)
            commit(("B", (bs + [0] * n)[:n]))
            return Step("ok", extra=[])
        idx, b = l[1], l[2]
        if idx >= len(bs):
            return Step("err", E_INDEX)
        bs[idx] = b
        commit(("B", bs))
        return Step("ok", extra=[])
    # ---- UnsizedList
    if ct[0] == "U" and code in (30, 31, 32, 33, 34, 35):
        it, k = ct[1], ct[2]
        es = list(cv[1])
        if code == 30:
            idx, n, kind = l[1], l[2], l[3]
            if idx > len(es):
                return Step("err", E_INDEX)
            e = o.request((U.init_size(it, kind) + 4 + k) * n)
            if e:
                return Step("err", e)
            nv = U.init_val(it, kind)
            if nv[0] == "err":
                if n == 0:
                    return Step("ok", extra=[])
                # insert into ONE container failing: must be atomic
                return Step("err", nv[1], known="D16")
            commit(("U", es[:idx] + [([], copy.deepcopy(nv)) for _ in range(n)] + es[idx:]))
            return Step("ok", extra=[])
        if code == 31:
            s, e_ = l[1], l[2]
            if s == 0 and e_ == len(es):
                commit(("U", []))
                return Step("ok", extra=[])
            if s > e_:
                return Step("err", E_RANGE)
            if e_ > len(es):
                return Step("err", E_INDEX)
            commit(("U", es[:s] + es[e_:]))
            return Step("ok", extra=[])
        if code == 32:
            commit(("U", es[:-1]))
            return Step("ok", extra=[])
        if code == 33:
            commit(("U", []))
            return Step("ok", extra=[])
        if code == 34:
            i = l[1]
            if i >= len(es):
                return Step("ok", extra=[-1])
            return Step("ok", extra=[len(U.encode(it, es[i][1]))])
        if code == 35:
            i = l[1]
            if i >= len(es):
                return Step("ok", extra=[-1])
            return Step("ok", extra=U.enc_val(es[i][1]))
    # ---- Map
    if role == "map" and code in (40, 41, 42, 43):
        lt = ct[1][0]
        c, lw = lt[1], lt[2]
        ksz = U.fsize(c[1][0])
        items = list(cv[1][0][1])
        keys = [U.unle(it[:ksz]) for it in items]
        if code == 42:
            commit(("S", [("L", [])]))
            return Step("ok", extra=[])
        m = l[1]
        key = l[2:2 + m]
        idx, found = lower_bound(keys, U.unle(key))
        if code == 40:
            r = l[2 + m:]
            val = r[1:1 + r[0]]
            if found:
                items[idx] = key + val
                commit(("S", [("L", items)]))
                return Step("ok", extra=[1])
            if len(items) + 1 >= 256 ** lw:
                return Step("err", E_TOPRIM)
            e = o.request(U.fsize(c))
            if e:
                return Step("err", e)
            commit(("S", [("L", items[:idx] + [key + val] + items[idx:])]))
            return Step("ok", extra=[0])
        if code == 41:
            if found:
                commit(("S", [("L", items[:idx] + items[idx + 1:])]))
                return Step("ok", extra=[1])
            return Step("ok", extra=[0])
        if code == 43:
            if found:
                return Step("ok", extra=U.enc_bytes(items[idx][ksz:]))
            return Step("ok", extra=[-1])
    # ---- Set
    if role == "set" and code in (45, 46, 47, 48):
        lt = ct[1][0]
        c, lw = lt[1], lt[2]
        items = list(cv[1][0][1])
        keys = [U.unle(it) for it in items]
        if code == 47:
            commit(("S", [("L", [])]))
            return Step("ok", extra=[])
        m = l[1]
        val = l[2:2 + m]
        idx, found = lower_bound(keys, U.unle(val))
        if code == 45:
            if found:
                return Step("ok", extra=[0])
            if len(items) + 1 >= 256 ** lw:
                return Step("err", E_TOPRIM)
            e = o.request(U.fsize(c))
            if e:
                return Step("err", e)
            commit(("S", [("L", items[:idx] + [val] + items[idx:])]))
            return Step("ok", extra=[1])
        if code == 46:
            if found:
                commit(("S", [("L", items[:idx] + items[idx + 1:])]))
                return Step("ok", extra=[1])
            return Step("ok", extra=[0])
        if code == 48:
            return Step("ok", extra=[int(found)])
    # ---- UnsizedString
    if role == "string" and code == 55:
        lt = ct[1][0]
        lw = lt[2]
        n = l[1]
        bs = l[2:2 + n]
        old = cv[1][0][1]
        # composite: clear, then push_all
        if n >= 256 ** lw:
            commit(("S", [("L", [])]))
            return Step("err", E_TOPRIM, state="exact")
        o.v = set_node(o.t, o.v, tpath, ("S", [("L", [])]))
        e = o.request(n) if n > 0 else None
        if e:
            return Step("err", e, state="exact")
        commit(("S", [("L", [[b] for b in bs])]))
        return Step("ok", extra=[])
    # ---- UnsizedMap
    if role == "umap" and code in (50, 51, 52, 53, 54):
        ut = ct[1][0]
        it, k = ut[1], ut[2]
        es = list(cv[1][0][1])
        keys = [U.unle(kk) for kk, _ in es]
        if code == 52:
            commit(("S", [("U", [])]))
            return Step("ok", extra=[])
        key = l[1]
        idx, found = lower_bound(keys, key)
        if code == 50:
            kind = l[2]
            nv = U.init_val(it, kind)
            if found:
                delta = U.init_size(it, kind) - len(U.encode(it, es[idx][1]))
                e = o.request(delta)
                if e:
                    return Step("err", e)
                if nv[0] == "err":
                    return Step("err", nv[1], state="canonical", known="D16")
                es[idx] = (es[idx][0], nv)
                commit(("S", [("U", es)]))
                return Step("ok", extra=[0])
            e = o.request(U.init_size(it, kind) + 4 + k)
            if e:
                return Step("err", e)
            if nv[0] == "err":
                return Step("err", nv[1], known="D16")
            commit(("S", [("U", es[:idx] + [(U.le(key, k), nv)] + es[idx:])]))
            return Step("ok", extra=[1])
        if code == 51:
            if found:
                commit(("S", [("U", es[:idx] + es[idx + 1:])]))
                return Step("ok", extra=[1])
            return Step("ok", extra=[0])
        if code == 53:
            if found:
                return Step("ok", extra=U.enc_val(es[idx][1]))
            return Step("ok", extra=[-1])
        if code == 54:
            if found:
                return Step("ok", extra=[len(U.encode(it, es[idx][1]))])
            return Step("ok", extra=[-1])
    return Step("skip")


# ---------------------------------------------------------------------------------------------- generation
def enc_item(b):
    return [len(b)] + list(b)


def gen_op(rng, o, resize_bias=True):
    """one mostly-valid op (path + leaf) for the oracle's current value; returns the int encoding"""
    return _gen_at(rng, o, o.t, o.v, [], [])


def _gen_at(rng, o, t, v, rpath, prefix):
    """an op at or below the node (t, v) reached by the op codes `prefix` (role path `rpath`)"""
    prefix = list(prefix)
    rpath = list(rpath)
    while True:
        role = U.role_at(o.si, rpath)
        if role in ("map", "set", "string"):
            break
        if role == "umap":
            es = v[1][0][1]
            if es and rng.chance(1, 2):
                kk, e = rng.choice(es)
                prefix += [2, U.unle(kk)]
                t, v = t[1][0][1], e
                rpath += [0, "*"]
                continue
            break
        if t[0] == "S":
            # choose an unsized field (skip a leading sized part most of the time)
            cand = [i for i, ft in enumerate(t[1]) if ft[0] != "F"]
            if not cand or rng.chance(1, 12):
                break
            i = rng.choice(cand)
            prefix += [1, i]
            t, v = t[1][i], v[1][i]
            rpath.append(i)
            continue
        if t[0] == "U" and v[1] and rng.chance(1, 2):
            i = rng.below(len(v[1])) if rng.chance(19, 20) else len(v[1]) + rng.below(2)
            prefix += [1, i]
            if i >= len(v[1]):
                return prefix + [13]
            t, v = t[1], v[1][i][1]
            rpath.append("*")
            continue
        if t[0] == "E":
            d = v[1]
            vts = dict(t[2])
            if rng.chance(1, 16):
                # get() expecting another variant than the live one (nothing happens), or the live unit variant
                return prefix + [1, rng.choice([dd for dd, vt in t[2] if dd != d or vt == ("S", [])]), 13]
            if vts[d] != ("S", []) and rng.chance(3, 5):
                prefix += [1, d]
                t, v = vts[d], v[2]
                rpath.append("V")
                continue
        break
    role = U.role_at(o.si, rpath)
    free = o.cap - o.size()
    if t[0] == "E" and rng.chance(4, 5):
        # variant switch with the default initializer: to every variant, the live one and unit variants included;
        # for a data variant, half of the time followed by an op on the wrapper the setter returns
        d, vt = rng.choice(t[2])
        if vt != ("S", []) and rng.chance(1, 2):
            return _gen_at(rng, o, vt, U.default_val(vt), rpath + ["V"], prefix + [60, d])
        return prefix + [60, d]
    if rng.chance(1, 25):
        # whole-value replacement at this node
        nv = U.fix_roles_sub(o.si, t, U.gen_val(rng, t, 12), rng, rpath)
        return prefix + [70] + U.enc_val(nv)
    if rng.chance(1, 30):
        return prefix + [71, rng.weighted([(0, 20), (1, 20), (2, 1)]) if t[0] == "L" else 0]
    if role == "map":
        lt = t[1][0]
        c = lt[1]
        ksz = U.fsize(c[1][0])
        items = v[1][0][1]
        r = rng.below(10)
        if items and rng.chance(1, 2):
            key = rng.choice(items)[:ksz]
        else:
            key = U.le(rng.below(256 ** ksz) if rng.chance(1, 2) else rng.below(12), ksz)
        if r < 5:
            return prefix + [40] + enc_item(key) + enc_item(U.gen_fixed(rng, c[1][1]))
        if r < 8:
            return prefix + [41] + enc_item(key)
        if r < 9:
            return prefix + [43] + enc_item(key)
        return prefix + [42]
    if role == "set":
        lt = t[1][0]
        c = lt[1]
        items = v[1][0][1]
        val = rng.choice(items) if (items and rng.chance(1, 2)) else U.le(rng.below(12) if rng.chance(1, 2) else rng.below(256 ** U.fsize(c)), U.fsize(c))
        r = rng.below(10)
        if r < 5:
            return prefix + [45] + enc_item(val)
        if r < 8:
            return prefix + [46] + enc_item(val)
        if r < 9:
            return prefix + [48] + enc_item(val)
        return prefix + [47]
    if role == "string":
        n = rng.choice([0, 1, 3, 10, rng.range(0, 40), 254, 255, 256]) if rng.chance(1, 6) else rng.range(0, 20)
        return prefix + [55, n] + U.utf8_of_len(rng, n)
    if role == "umap":
        es = v[1][0][1]
        key = U.unle(rng.choice(es)[0]) if (es and rng.chance(1, 2)) else rng.below(16)
        r = rng.below(12)
        if r < 5:
            vt = t[1][0][1]
            return prefix + [50, key, rng.weighted([(0, 30), (1, 15), (2, 1)]) if vt[0] == "L" else 0]
        if r < 8:
            return prefix + [51, key]
        if r < 9:
            return prefix + [53, key]
        if r < 11:
            return prefix + [54, key]
        return prefix + [52]
    if t[0] == "L":
        c, lw = t[1], t[2]
        items = v[1]
        n = len(items)
        r = rng.below(20)
        if r < 6:
            return prefix + [15] + enc_item(U.gen_fixed(rng, c))
        if r < 10:
            k = rng.choice([0, 1, 2, 5, rng.range(0, 30)])
            if rng.chance(1, 25):
                k = max(0, 256 ** lw - 1 - n + rng.range(-1, 1)) if lw == 1 else k
            if rng.chance(1, 40):
                k = max(0, free // max(1, U.fsize(c)) + rng.range(-1, 1))
            idx = rng.range(0, n) if rng.chance(19, 20) else n + 1
            out = prefix + [10, idx, k]
            for _ in range(k):
                out += enc_item(U.gen_fixed(rng, c))
            return out
        if r < 14:
            if n and rng.chance(9, 10):
                s = rng.range(0, n)
                e = rng.range(s, n)
            else:
                s, e = rng.range(0, n + 1), rng.range(0, n + 2)
            return prefix + [11, s, e]
        if r < 15:
            return prefix + [12]
        if r < 16:
            return prefix + [13]
        if n:
            return prefix + [14, rng.below(n) if rng.chance(19, 20) else n] + enc_item(U.gen_fixed(rng, c))
        return prefix + [15] + enc_item(U.gen_fixed(rng, c))
    if t[0] == "R":
        n = len(v[1])
        r = rng.below(10)
        if r < 6 or n == 0:
            new = rng.choice([0, n, n + 1, max(0, n - 1), rng.range(0, 40)])
            if rng.chance(1, 30):
                new = n + free + rng.range(-1, 1)
            return prefix + [20, max(0, new)]
        return prefix + [21, rng.below(n) if rng.chance(19, 20) else n, rng.below(256)]
    if t[0] == "U":
        es = v[1]
        n = len(es)
        r = rng.below(20)
        if r < 8:
            idx = rng.range(0, n) if rng.chance(19, 20) else n + 1
            kind = rng.weighted([(0, 25), (1, 20), (2, 1)]) if t[1][0] == "L" else 0
            return prefix + [30, idx, rng.weighted([(1, 6), (2, 2), (0, 1), (3, 1)]), kind]
        if r < 12:
            if n and rng.chance(9, 10):
                s = rng.range(0, n)
                e = rng.range(s, n)
            else:
                s, e = rng.range(0, n + 1), rng.range(0, n + 2)
            return prefix + [31, s, e]
        if r < 13:
            return prefix + [32]
        if r < 14:
            return prefix + [33]
        if r < 18:
            return prefix + [34, rng.below(n + 1)]
        return prefix + [35, rng.below(n + 1)]
    if t[0] == "S" and t[1] and t[1][0][0] == "F":
        return prefix + [72] + enc_item(U.gen_fixed(rng, t[1][0][1]))
    return prefix + [71, 0]


def gen_history(rng, shape, nsteps, refuse=-1, flush=0, budget=16):
    idx, desc, ty = shape
    v0 = U.fix_roles(idx, ty, U.gen_val(rng, ty, budget), rng)
    o = Oracle(idx, ty, copy.deepcopy(v0), refuse)
    steps = []
    for si in range(nsteps):
        o.step = si
        if rng.chance(1, 12):
            op = [90]
        else:
            op = gen_op(rng, o)
            st = apply(o, None, op)
            if st.known:
                # the implementation's state after this failure is a recorded finding: the history ends here
                steps.append(op)
                break
        steps.append(op)
    ints = [idx] + desc + [flush, refuse] + U.enc_val(v0) + [len(steps)]
    for s in steps:
        ints += [len(s)] + s
    return ints


def decode_case(c):
    idx = c[0]
    ty, r = U.dec_ty(c[1:])
    flush, refuse = r[0], r[1]
    v0, r = U.dec_val(r[2:])
    n = r[0]
    r = r[1:]
    steps = []
    for _ in range(n):
        ln = r[0]
        steps.append(r[1:1 + ln])
        r = r[1 + ln:]
    return idx, ty, flush, refuse, v0, steps


def encode_case(idx, desc, flush, refuse, v0, steps):
    ints = [idx] + desc + [flush, refuse] + U.enc_val(v0) + [len(steps)]
    for s in steps:
        ints += [len(s)] + s
    return ints


def split_obs(obs, nsteps):
    """per-step frames + trailer"""
    frames = []
    i = 0
    for _ in range(nsteps):
        if i >= len(obs):
            break
        n = obs[i]
        if n < 0:
            break
        frames.append(obs[i + 1:i + 1 + n])
        i += 1 + n
    return frames, obs[i:]


def judge(c, obs, want):
    """The properties, judged on the implementation's observation against the plain oracle.
    want: set of aspects to check: 'model' (C01 values/outcomes), 'canon' (C02), 'safety' (C03), 'atomic' (C06)"""
    if obs is None or (obs and obs[0] == "UNPARSEABLE"):
        return "no observation from the implementation"
    if obs[:1] == [-5]:
        return "harness descriptor out of sync with the case"
    if obs[:1] == [-11]:
        return "the implementation crashed with signal %d (access outside the allocation)" % obs[1] if "safety" in want else None
    idx, ty, flush, refuse, v0, steps = decode_case(c)
    o = Oracle(idx, ty, copy.deepcopy(v0), refuse)
    frames, trailer = split_obs(obs, len(steps))
    for si, (op, fr) in enumerate(zip(steps, frames)):
        o.step = si
        if not fr:
            return "step %d: empty observation" % si
        if op[:1] == [90]:
            # release + shared borrow + fresh exclusive borrow
            if fr[0] != 0:
                return ("step %d: re-borrow after release failed: %s" % (si, fr[:3])) if "model" in want else None
            st = fr[1:]
            why = _check_state(o, st, si, want, "after re-borrow")
            if why:
                return why
            continue
        before = copy.deepcopy(o.v)
        before_size = o.size()
        exp = apply(o, None, op)
        if fr[0] == 2:
            return "step %d (%s): panic" % (si, op[:6]) if ("model" in want or "safety" in want) else None
        if fr[0] == 9 or exp.kind == "skip":
            if fr[0] != 9 or exp.kind != "skip":
                return "step %d: op applicability differs (harness %s, oracle %s)" % (si, fr[:2], exp.kind)
            continue
        if exp.kind == "ok":
            if fr[0] != 0:
                if "model" in want:
                    return "step %d (%s): the operation failed with %s but succeeds on the owned model" % (si, op[:8], fr[:2])
                if "atomic" in want and fr[0] == 1:
                    # the implementation reports a failure the owned model does not foresee: whatever its reason, a failed
                    # operation has to leave value and bytes as they were
                    o.v = before
                    why = _check_state(o, fr[2:], si, {"model", "canon"}, "after FAILED %s (must be untouched)" % op[:8])
                    if why:
                        return why
                return None
            ne = fr[1]
            extra = fr[2:2 + ne]
            st = fr[2 + ne:]
            if exp.extra is not None and extra != exp.extra and "model" in want:
                return "step %d (%s): returned %s, the owned model returns %s" % (si, op[:8], extra, exp.extra)
            why = _check_state(o, st, si, want, "after %s" % op[:8])
            if why:
                return why
        else:
            if exp.known:
                # a recorded finding class: report it (tagged) if the implementation indeed leaves a modified / non-canonical
                # state; nothing after this step is judged
                st = fr[2:] if fr[0] == 1 else []
                bad = False
                if fr[0] != 1:
                    bad = True
                elif exp.state == "unchanged":
                    o.v = before
                    bad = _check_state(o, st, si, {"model", "canon"}, "") is not None
                else:
                    bad = len(st) < 5 or st[2] != 1 or st[3] != 1
                if bad and ("atomic" in want or "model" in want):
                    return "[%s] step %d (%s): an initializer that fails (array longer than its length prefix allows) is run AFTER the container was resized; the error leaves the value modified / the bytes non-canonical" % (exp.known, si, op[:8])
                return None
            if fr[0] == 0:
                o.v = before
                return ("step %d (%s): the operation succeeded but fails on the owned model (expected error %s)" % (si, op[:8], exp.code)) if "model" in want else None
            if fr[0] != 1:
                return "step %d: malformed frame %s" % (si, fr[:4])
            if exp.code is not None and fr[1] != exp.code and "model" in want:
                return "step %d (%s): error %s, expected %s" % (si, op[:8], fr[1], exp.code)
            st = fr[2:]
            if exp.state == "unchanged":
                o.v = before
                if "atomic" in want:
                    why = _check_state(o, st, si, {"model", "canon"}, "after FAILED %s (must be untouched)" % op[:8])
                    if why:
                        return why
            elif exp.state == "exact":
                if "atomic" in want or "model" in want:
                    why = _check_state(o, st, si, {"model", "canon"}, "after failed composite %s" % op[:8])
                    if why:
                        return why
            else:
                # composite: only "still a canonical value" is required; adopt whatever value is there
                if len(st) < 5:
                    return "step %d: truncated state" % si
                if "atomic" in want and (st[2] != 1 or st[3] != 1):
                    return "step %d (%s): after the failed operation the bytes are not the canonical encoding of a value (canon=%s agree=%s)" % (si, op[:8], st[2], st[3])
                try:
                    nv, _ = U.dec_val(st[4:])
                    o.v = nv
                except Exception:  # noqa: BLE001
                    return "step %d: no value observable after failed op" % si if "atomic" in want else None
    if len(frames) < len(steps):
        if trailer[:1] == [-98] or (frames and frames[-1][:1] == [2]):
            return "panic at step %d" % (len(frames) - 1) if ("model" in want or "safety" in want) else None
        return "observation ended early"
    # trailer: drop tag, final state, canaries
    if not trailer:
        return "missing trailer"
    if trailer[0] != 0:
        return "the drop-time pointer check of the exclusive wrapper panicked" if ("model" in want or "safety" in want) else None
    why = _check_state(o, trailer[1:-1], len(steps), want, "after the borrow ended")
    if why:
        return why
    if trailer[-1] != 1 and "safety" in want:
        return "bytes outside the allocation were modified (canaries)"
    return None


def _check_state(o, st, si, want, when):
    if len(st) < 5:
        return "step %d: truncated state observation %s" % (si, st)
    ln, ck, canon, agree = st[:4]
    vals = st[4:]
    expv = U.enc_val(o.v)
    if "model" in want:
        if vals != expv:
            return "step %d %s: observable value differs from the owned model: got %s expected %s" % (si, when, vals[:40], expv[:40])
        if agree != 1:
            return "step %d %s: live accessors and a fresh parse of the bytes disagree" % (si, when)
    if "canon" in want:
        if canon != 1:
            return "step %d %s: stored bytes are not the canonical serialization of the value" % (si, when)
        if ln != len(U.encode(o.t, o.v)) and vals == expv:
            return "step %d %s: data length %d differs from the serialized size %d" % (si, when, ln, len(U.encode(o.t, o.v)))
    return None
