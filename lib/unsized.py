"""Shared Python side of the unsized-type properties (C01-C06): shape descriptors (asked from the harness),
value / type integer codecs, a PLAIN owned-model oracle (Vec / BTreeMap / String semantics, independent of the
Coq model) used both to generate mostly-valid histories and to judge the implementation directly."""
import os
import subprocess

MAX_INC = 10240
E_INDEX = 3000
E_RANGE = 3001
E_TOPRIM = 9000
E_REALLOC = 20 << 32
HARNESS_BIN = os.path.join(os.path.dirname(os.path.abspath(__file__)), "..", "harness", "target", "debug", "vh_unsized")

_FAM = None


def family():
    """[(index, descriptor ints, parsed type)]"""
    global _FAM
    if _FAM is None:
        out = subprocess.run([HARNESS_BIN, "/dev/null", "family"], stdout=subprocess.PIPE, check=True).stdout.decode()
        fam = []
        for line in out.strip().split("\n"):
            t = [int(x) for x in line.split()]
            ty, rest = dec_ty(t[1:])
            assert rest == [], line
            fam.append((t[0], t[1:], ty))
        _FAM = fam
    return _FAM


# ---------------------------------------------------------------------------------------------- codecs
def dec_fcheck(l):
    if l[0] == 0:
        return ("any", l[1]), l[2:]
    if l[0] == 1:
        return ("bool",), l[1:]
    if l[0] == 2:
        n = l[1]
        return ("disc", l[2:2 + n]), l[2 + n:]
    if l[0] == 3:
        n = l[1]
        r = l[2:]
        fs = []
        for _ in range(n):
            f, r = dec_fcheck(r)
            fs.append(f)
        return ("struct", fs), r
    raise ValueError(l[:5])


def fsize(c):
    if c[0] == "any":
        return c[1]
    if c[0] in ("bool", "disc"):
        return 1
    return sum(fsize(f) for f in c[1])


def fvalid(c, bs):
    if c[0] == "any":
        return True
    if c[0] == "bool":
        return len(bs) == 1 and bs[0] in (0, 1)
    if c[0] == "disc":
        return len(bs) == 1 and bs[0] in c[1]
    off = 0
    for f in c[1]:
        n = fsize(f)
        if not fvalid(f, bs[off:off + n]):
            return False
        off += n
    return True


def dec_ty(l):
    k = l[0]
    if k == 0:
        c, r = dec_fcheck(l[1:])
        return ("F", c), r
    if k == 1:
        c, r = dec_fcheck(l[1:])
        return ("L", c, r[0]), r[1:]
    if k == 2:
        return ("R",), l[1:]
    if k == 3:
        it, r = dec_ty(l[2:])
        return ("U", it, l[1]), r
    if k == 4:
        n = l[1]
        r = l[2:]
        ts = []
        for _ in range(n):
            t, r = dec_ty(r)
            ts.append(t)
        return ("S", ts), r
    if k == 5:
        rw, n = l[1], l[2]
        r = l[3:]
        vs = []
        for _ in range(n):
            d = r[0]
            t, r = dec_ty(r[1:])
            vs.append((d, t))
        return ("E", rw, vs), r
    raise ValueError(l[:5])


def enc_bytes(b):
    return [len(b)] + list(b)


def enc_val(v):
    k = v[0]
    if k == "B":
        return [0] + enc_bytes(v[1])
    if k == "L":
        out = [1, len(v[1])]
        for it in v[1]:
            out += enc_bytes(it)
        return out
    if k == "U":
        out = [2, len(v[1])]
        for key, e in v[1]:
            out += enc_bytes(key) + enc_val(e)
        return out
    if k == "S":
        out = [3, len(v[1])]
        for e in v[1]:
            out += enc_val(e)
        return out
    if k == "E":
        return [4, v[1]] + enc_val(v[2])
    raise ValueError(v)


def dec_val(l):
    k = l[0]
    if k == 0:
        n = l[1]
        return ("B", l[2:2 + n]), l[2 + n:]
    if k == 1:
        n = l[1]
        r = l[2:]
        items = []
        for _ in range(n):
            m = r[0]
            items.append(r[1:1 + m])
            r = r[1 + m:]
        return ("L", items), r
    if k == 2:
        n = l[1]
        r = l[2:]
        es = []
        for _ in range(n):
            m = r[0]
            key = r[1:1 + m]
            v, r = dec_val(r[1 + m:])
            es.append((key, v))
        return ("U", es), r
    if k == 3:
        n = l[1]
        r = l[2:]
        vs = []
        for _ in range(n):
            v, r = dec_val(r)
            vs.append(v)
        return ("S", vs), r
    if k == 4:
        v, r = dec_val(l[2:])
        return ("E", l[1], v), r
    raise ValueError(l[:6])


def le(n, w):
    return [(n >> (8 * i)) & 0xFF for i in range(w)]


def unle(bs):
    return sum(b << (8 * i) for i, b in enumerate(bs))


def encode(t, v):
    """canonical serialisation (FromOwned), written independently of the Coq model"""
    k = t[0]
    if k in ("F", "R"):
        return list(v[1])
    if k == "L":
        out = le(len(v[1]), t[2])
        for it in v[1]:
            out += it
        return out
    if k == "U":
        encs = [encode(t[1], e) for _, e in v[1]]
        out = le(sum(len(e) for e in encs), 4) + le(len(encs), 4)
        off = 0
        for (key, _), e in zip(v[1], encs):
            out += le(off, 4) + list(key)
            off += len(e)
        out += le(len(encs), 4)
        for e in encs:
            out += e
        return out
    if k == "S":
        out = []
        for ft, fv in zip(t[1], v[1]):
            out += encode(ft, fv)
        return out
    if k == "E":
        vt = dict(t[2])[v[1]]
        return le(v[1], t[1]) + encode(vt, v[2])
    raise ValueError(t)


def default_val(t):
    k = t[0]
    if k == "F":
        return ("B", [0] * fsize(t[1]))
    if k == "L":
        return ("L", [])
    if k == "R":
        return ("B", [])
    if k == "U":
        return ("U", [])
    if k == "S":
        return ("S", [default_val(f) for f in t[1]])
    if k == "E":
        # the #[default_init] variant is the FIRST listed variant of the descriptor (harness/src/shapes.rs enum_node!)
        d, vt = t[2][0]
        return ("E", d, default_val(vt))
    raise ValueError(t)


def init_val(t, kind):
    """the value UnsizedInit with initializer `kind` denotes, or ('err', code)"""
    k = t[0]
    if kind == 0:
        return default_val(t)
    if k == "L":
        n = 3 if kind == 1 else 300
        if n >= 256 ** t[2]:
            return ("err", E_TOPRIM)
        return ("L", [[1] * fsize(t[1]) for _ in range(n)])
    if k == "R" and kind == 1:
        return ("B", [1, 1, 1])
    return default_val(t)


def init_size(t, kind):
    k = t[0]
    if k == "L":
        n = {0: 0, 1: 3, 2: 300}[kind]
        return t[2] + fsize(t[1]) * n
    if k == "R":
        return 3 if kind == 1 else 0
    return len(encode(t, default_val(t)))


# ---------------------------------------------------------------------------------------------- random values
def gen_fixed(rng, c):
    if c[0] == "any":
        return rng.bytes(c[1])
    if c[0] == "bool":
        return [rng.below(2)]
    if c[0] == "disc":
        return [rng.choice(c[1])]
    out = []
    for f in c[1]:
        out += gen_fixed(rng, f)
    return out


def is_keyed_list(t):
    """Map / Set: struct with a single list whose items are ordered by their leading key"""
    return t[0] == "S" and len(t[1]) == 1 and t[1][0][0] == "L"


def gen_val(rng, t, budget, role=None):
    k = t[0]
    if k == "F":
        return ("B", gen_fixed(rng, t[1]))
    if k == "L":
        n = rng.choice([0, 0, 1, 2, 3, rng.range(0, max(0, min(budget, 12)))])
        n = min(n, 256 ** t[2] - 1)
        return ("L", [gen_fixed(rng, t[1]) for _ in range(n)])
    if k == "R":
        return ("B", rng.bytes(rng.choice([0, 0, 1, 5, rng.range(0, 20)])))
    if k == "U":
        n = rng.choice([0, 1, 2, 3, rng.range(0, 5)])
        if t[2] > 0:
            keys = sorted(set(rng.below(256 ** min(t[2], 1)) for _ in range(n)))
            return ("U", [(le(kk, t[2]), gen_val(rng, t[1], budget // 2)) for kk in keys])
        return ("U", [([], gen_val(rng, t[1], budget // 2)) for _ in range(n)])
    if k == "S":
        return ("S", [gen_val(rng, f, budget // max(1, len(t[1]))) for f in t[1]])
    if k == "E":
        d, vt = rng.choice(t[2])
        return ("E", d, gen_val(rng, vt, budget))
    raise ValueError(t)


def canon_sorted(t, v, kinds):
    """values of shapes that are Map / Set / UnsizedString in Rust must respect their Owned type: sorted unique
    keys (numeric little-endian order), ASCII strings"""
    k = t[0]
    if k == "S":
        fs = [canon_sorted(ft, fv, None) for ft, fv in zip(t[1], v[1])]
        return ("S", fs)
    if k == "U":
        return ("U", [(key, canon_sorted(t[1], e, None)) for key, e in v[1]])
    return v


# ---------------------------------------------------------------------------------------------- the plain oracle
class Shape:
    """a harness shape with the Rust-level meaning of its struct wrappers (which S nodes are Map/Set/String/UMap)"""

    def __init__(self, index, desc, ty, roles):
        self.index, self.desc, self.ty, self.roles = index, desc, ty, roles


# roles: path (tuple of raw indices, '*' for a list element, 'V' for an enum's live payload) -> 'map' | 'set' | 'string' |
# 'umap'; filled per harness shape index
def role_at(shape_index, tpath):
    return ROLES.get(shape_index, {}).get(tuple(tpath))


ROLES = {
    9: {(): "umap"},
    10: {(): "map"},
    11: {(): "set"},
    12: {(): "string"},
    16: {(0,): "map", (1,): "umap", (2,): "string", (3,): "set", (4,): "umap"},
    18: {(): "umap"},
    25: {(): "map"},
    26: {(): "set"},
}
# shapes that only take part in the parse / encode properties (C04, C05)
PARSE_ONLY = {25, 26, 27, 28, 29}


def family_ops():
    return [f for f in family() if f[0] not in PARSE_ONLY]



_UTF8 = {2: ["\u00e9", "\u00df", "\u03bb"], 3: ["\u20ac", "\u4e2d"], 4: ["\U0001F600", "\U00010348"]}


def utf8_of_len(rng, n):
    """exactly n bytes of valid UTF-8: ASCII mixed with 2-, 3- and 4-byte characters (a string's byte length and its
    character count differ)"""
    out = []
    while len(out) < n:
        room = n - len(out)
        w = rng.weighted([(1, 6), (2, 2), (3, 1), (4, 1)])
        if w > room:
            w = 1
        if w == 1:
            out.append(32 + rng.below(90))
        else:
            out += list(rng.choice(_UTF8[w]).encode("utf-8"))
    return out


def fix_roles(shape_index, t, v, rng, tpath=()):
    """make a generated value respect the Owned types: sorted unique keys, valid UTF-8 strings"""
    role = role_at(shape_index, tpath)
    k = t[0]
    if role in ("map", "set"):
        lt = t[1][0]
        items = v[1][0][1]
        c = lt[1]
        ksz = fsize(c[1][0]) if (role == "map") else fsize(c)
        seen = {}
        for it in items:
            seen[unle(it[:ksz])] = it
        return ("S", [("L", [seen[kk] for kk in sorted(seen)])])
    if role == "string":
        items = v[1][0][1]
        return ("S", [("L", [[b] for b in utf8_of_len(rng, len(items))])])
    if role == "umap":
        ut = t[1][0]
        es = v[1][0][1]
        out = []
        for key, e in es:
            out.append((key, fix_roles(shape_index, ut[1], e, rng, tpath + (0, "*"))))
        return ("S", [("U", out)])
    if k == "S":
        return ("S", [fix_roles(shape_index, ft, fv, rng, tpath + (i,)) for i, (ft, fv) in enumerate(zip(t[1], v[1]))])
    if k == "U":
        return ("U", [(key, fix_roles(shape_index, t[1], e, rng, tpath + ("*",))) for key, e in v[1]])
    if k == "E":
        return ("E", v[1], fix_roles(shape_index, dict(t[2])[v[1]], v[2], rng, tpath + ("V",)))
    return v


def fix_roles_sub(shape_index, t, v, rng, rpath):
    return fix_roles(shape_index, t, v, rng, tuple(rpath))


def field_positions(t, v, base=0):
    """positions of the metadata fields inside encode(t, v): [(offset, width, kind)] with kind in
    len / usz / ulen / off / lencopy / disc / bool"""
    k = t[0]
    out = []
    if k == "F":
        def walk(c, pos):
            if c[0] == "bool":
                out.append((pos, 1, "bool"))
            elif c[0] == "disc":
                out.append((pos, 1, "disc"))
            elif c[0] == "struct":
                for f in c[1]:
                    walk(f, pos)
                    pos += fsize(f)
        walk(t[1], base)
        return out
    if k == "L":
        out.append((base, t[2], "len"))
        c = t[1]
        pos = base + t[2]
        for it in v[1]:
            out += field_positions(("F", c), ("B", it), pos)
            pos += fsize(c)
        return out
    if k == "R":
        return out
    if k == "U":
        n = len(v[1])
        esz = 4 + t[2]
        out.append((base, 4, "usz"))
        out.append((base + 4, 4, "ulen"))
        for i in range(n):
            out.append((base + 8 + i * esz, 4, "off"))
        out.append((base + 8 + n * esz, 4, "lencopy"))
        pos = base + 12 + n * esz
        for _, e in v[1]:
            out += field_positions(t[1], e, pos)
            pos += len(encode(t[1], e))
        return out
    if k == "S":
        pos = base
        for ft, fv in zip(t[1], v[1]):
            out += field_positions(ft, fv, pos)
            pos += len(encode(ft, fv))
        return out
    if k == "E":
        out.append((base, t[1], "disc"))
        vt = dict(t[2])[v[1]]
        return out + field_positions(vt, v[2], base + t[1])
    return out
