"""Shared machinery of the check driver (bin/check).  Trusted plumbing: see DESIGN.md section 8."""
import hashlib
import json
import os
import re
import subprocess
import sys
import time

VERIF = os.path.normpath(os.path.join(os.path.dirname(os.path.abspath(__file__)), ".."))
REPO = os.environ.get("VERIF_REPO", "/repo")
COQ = os.path.join(VERIF, "coq")
HARNESS = os.path.join(VERIF, "harness")
RUNNER = os.path.join(VERIF, "runner")
WORK = os.path.join(VERIF, "work")
NPROC = os.cpu_count() or 4

FORBIDDEN = re.compile(
    r"\b(Admitted|admit|Axiom|Axioms|Parameter|Parameters|Conjecture|Conjectures|Hypothesis|Hypotheses|"
    r"Variable|Variables|bypass_check|Admit Obligations)\b|Unset Guard|Unset Positivity|Unset Universe|type-in-type|"
    r"impredicative-set")

# axioms of the Coq standard library that a theorem may depend on (none is currently needed; the
# list is what the brief allows, anything printed by Print Assumptions outside it fails the check)
ALLOWED_AXIOMS = {
    "functional_extensionality_dep", "FunctionalExtensionality.functional_extensionality_dep",
    "proof_irrelevance", "classic", "JMeq_eq", "Eqdep.Eq_rect_eq.eq_rect_eq",
}


class CheckError(Exception):
    """A step of the machinery itself failed (build, translator...)."""


# ----------------------------------------------------------------------------------------------
# deterministic PRNG: splitmix64, everything derives from VERIF_SEED
class Rng:
    def __init__(self, seed):
        self.s = seed & 0xFFFFFFFFFFFFFFFF

    def next(self):
        self.s = (self.s + 0x9E3779B97F4A7C15) & 0xFFFFFFFFFFFFFFFF
        z = self.s
        z = ((z ^ (z >> 30)) * 0xBF58476D1CE4E5B9) & 0xFFFFFFFFFFFFFFFF
        z = ((z ^ (z >> 27)) * 0x94D049BB133111EB) & 0xFFFFFFFFFFFFFFFF
        return z ^ (z >> 31)

    def below(self, n):
        return self.next() % n if n > 0 else 0

    def range(self, lo, hi):
        """inclusive"""
        return lo + self.below(hi - lo + 1)

    def choice(self, xs):
        return xs[self.below(len(xs))]

    def chance(self, num, den):
        return self.below(den) < num

    def weighted(self, pairs):
        tot = sum(w for _, w in pairs)
        r = self.below(tot)
        for x, w in pairs:
            if r < w:
                return x
            r -= w
        return pairs[-1][0]

    def shuffle(self, xs):
        xs = list(xs)
        for i in range(len(xs) - 1, 0, -1):
            j = self.below(i + 1)
            xs[i], xs[j] = xs[j], xs[i]
        return xs

    def bytes(self, n):
        return [self.below(256) for _ in range(n)]


# ----------------------------------------------------------------------------------------------
def sh(cmd, cwd=None, timeout=1800, env=None, check=False, input=None):
    e = dict(os.environ)
    e.setdefault("CARGO_NET_OFFLINE", "true")
    if env:
        e.update(env)
    p = subprocess.run(cmd, cwd=cwd, shell=isinstance(cmd, str), stdout=subprocess.PIPE,
                       stderr=subprocess.STDOUT, timeout=timeout, env=e, input=input)
    out = p.stdout.decode("utf-8", "replace")
    if check and p.returncode != 0:
        raise CheckError("command failed (%s): %s\n%s" % (p.returncode, cmd, out[-4000:]))
    return p.returncode, out


def log(msg):
    print("[check] " + msg, flush=True)


# ----------------------------------------------------------------------------------------------
# Coq side
def gen_constants(prop=None):
    """run the translator; returns an error text when the main file, or the extra generator of this property
    (tools/gen_extra_<prop>.py), no longer matches the source"""
    rc, out = sh([sys.executable, os.path.join(VERIF, "tools", "gen_constants.py")], cwd=VERIF)
    if rc != 0:
        return out.strip()
    if prop:
        for line in out.split("\n"):
            if line.lower().startswith("gen-error %s:" % prop.lower()):
                return line
    return None


def coq_project_text():
    """_CoqProject is generated: every .v under coq/ (except Pins/, which are compiled per check)"""
    files = []
    for root, dirs, fs in os.walk(COQ):
        dirs.sort()
        for fn in sorted(fs):
            if fn.endswith(".v"):
                rel = os.path.relpath(os.path.join(root, fn), COQ)
                if rel.startswith("Pins" + os.sep):
                    continue
                files.append(rel)
    if "Gen/Generated.v" not in files:
        files.append("Gen/Generated.v")
    head = ("-Q . SF\n-arg -w -arg -notation-overridden,-deprecated-hint-without-locality,"
            "-deprecated-instance-without-locality,-extraction-opaque-accessed,-extraction\n")
    return head + "\n".join(sorted(files)) + "\n"


def coq_makefile():
    mk = os.path.join(COQ, "Makefile")
    proj = os.path.join(COQ, "_CoqProject")
    text = coq_project_text()
    if not os.path.exists(proj) or open(proj).read() != text:
        with open(proj, "w") as f:
            f.write(text)
    if not os.path.exists(mk) or os.path.getmtime(mk) < os.path.getmtime(proj):
        sh("coq_makefile -f _CoqProject -o Makefile", cwd=COQ, check=True)


def coq_make(targets, timeout=1500):
    """returns (ok, log)"""
    coq_makefile()
    rc, out = sh(["make", "-j%d" % NPROC] + targets, cwd=COQ, timeout=timeout)
    return rc == 0, out


def forbidden_scan():
    bad = []
    for root, _, files in os.walk(COQ):
        for fn in files:
            if not fn.endswith(".v"):
                continue
            p = os.path.join(root, fn)
            txt = open(p, encoding="utf-8").read()
            # strip comments (non-nested is enough for our files; nested handled by loop)
            prev = None
            while prev != txt:
                prev = txt
                txt = re.sub(r"\(\*(?:(?!\(\*|\*\)).)*\*\)", " ", txt, flags=re.S)
            in_section = 0
            for ln, line in enumerate(txt.split("\n"), 1):
                if re.match(r"\s*Section\b", line):
                    in_section += 1
                if re.match(r"\s*End\b", line) and in_section:
                    in_section -= 1
                m = FORBIDDEN.search(line)
                if m:
                    word = m.group(0)
                    # Variable / Hypothesis are fine inside a Section (they are discharged)
                    if word in ("Variable", "Variables", "Hypothesis", "Hypotheses") and in_section:
                        continue
                    bad.append("%s:%d: %s" % (os.path.relpath(p, VERIF), ln, line.strip()))
    return bad


def check_pins(prop):
    """Compile coq/Pins/<prop>.v (Check name : statement / Print Assumptions name) and parse it.
    returns (theorems: list of dict(name, assumptions), error or None)"""
    pins = os.path.join(COQ, "Pins", prop + ".v")
    if not os.path.exists(pins):
        return [], "no pins file for " + prop
    os.makedirs(WORK, exist_ok=True)
    # every library the pins file imports has to be up to date with the sources (a model file edited since the last
    # full build would otherwise leave a stale .vo behind: "inconsistent assumptions")
    mods = []
    for line in re.findall(r"^From SF Require Import ([^\n]*?)\.\s*$", open(pins).read(), re.M):
        mods += line.split()
    targets = [m.replace(".", "/") + ".vo" for m in mods if os.path.exists(os.path.join(COQ, m.replace(".", "/") + ".v"))]
    if targets:
        ok, out = coq_make(targets)
        if not ok:
            return [], "libraries imported by the pinned statements do not build:\n" + out[-3000:]
    tmpv = os.path.join(WORK, "Pins_%s.v" % prop)
    with open(tmpv, "w") as f:
        f.write(open(pins).read())
    rc, out = sh(["coqc", "-Q", COQ, "SF", "-w", "-all", tmpv], cwd=WORK, timeout=600)
    if rc != 0:
        return [], "pinned statements no longer check:\n" + out[-3000:]
    names = re.findall(r"^\s*Print Assumptions\s+([A-Za-z0-9_.']+)\s*\.", open(pins).read(), re.M)
    # split output into one block per Print Assumptions
    blocks = []
    cur = None
    for line in out.split("\n"):
        if line.startswith("Closed under the global context"):
            blocks.append([])
            cur = None
        elif line.startswith("Axioms:"):
            cur = []
            blocks.append(cur)
        elif cur is not None and line.strip():
            if re.match(r"^\S", line) and ":" in line:
                cur.append(line.split(":")[0].strip())
    if len(blocks) != len(names):
        return [], "could not match Print Assumptions output (%d blocks, %d names)\n%s" % (
            len(blocks), len(names), out[-2000:])
    thms = []
    err = None
    for n, b in zip(names, blocks):
        thms.append({"name": n, "assumptions": b})
        for ax in b:
            if ax.split(".")[-1] not in {a.split(".")[-1] for a in ALLOWED_AXIOMS}:
                err = "theorem %s depends on a non-allowed axiom: %s" % (n, ax)
    return thms, err


def build_runner(group):
    model = os.path.join(COQ, "model_%s.ml" % group)
    exe = os.path.join(RUNNER, "bin", "runner_" + group)
    srcs = [model, os.path.join(RUNNER, "driver.ml"), os.path.join(RUNNER, "build.sh"),
            os.path.join(COQ, "Extraction", "Extract_%s.v" % group)]
    if not os.path.exists(model):
        raise CheckError("extracted model missing: " + model)
    if os.path.exists(exe) and all(os.path.getmtime(exe) >= os.path.getmtime(s) for s in srcs):
        return
    sh([os.path.join(RUNNER, "build.sh"), group], cwd=RUNNER, check=True, timeout=900)


def run_model(group, entry, casefile, timeout=1800):
    rc, out = sh([os.path.join(RUNNER, "bin", "runner_" + group), entry, casefile], timeout=timeout,
                 env={"OCAMLRUNPARAM": "l=1G"})
    if rc != 0:
        raise CheckError("model runner failed: " + out[-2000:])
    return parse_obs(out, base=16)


# ----------------------------------------------------------------------------------------------
# Rust side
def build_harness(bin_name, release=False, extra_env=None, timeout=2400):
    """cargo build of one harness binary against /repo's working tree.  returns (path or None, log)"""
    lock_src = os.path.join(REPO, "Cargo.lock")
    lock_dst = os.path.join(HARNESS, "Cargo.lock")
    if not os.path.exists(lock_dst) or open(lock_src, "rb").read() != open(lock_dst, "rb").read():
        # keep our own additions if cargo already extended the lock file: only refresh when absent
        if not os.path.exists(lock_dst):
            with open(lock_dst, "wb") as f:
                f.write(open(lock_src, "rb").read())
    cmd = ["cargo", "build", "--offline", "--bin", bin_name]
    if release:
        cmd.append("--release")
    rc, out = sh(cmd, cwd=HARNESS, timeout=timeout, env=extra_env)
    if rc != 0:
        return None, out
    return os.path.join(HARNESS, "target", "release" if release else "debug", bin_name), out


def run_harness(exe, casefile, args=(), timeout=1800):
    rc, out = sh([exe, casefile] + list(args), timeout=timeout)
    if rc != 0:
        raise CheckError("harness %s failed (rc=%s): %s" % (exe, rc, out[-3000:]))
    return parse_obs(out, base=10)


def parse_obs(text, base):
    res = {}
    for line in text.split("\n"):
        toks = line.split()
        if not toks:
            continue
        try:
            res[toks[0]] = [int(t, base) for t in toks[1:]]
        except ValueError:
            res[toks[0]] = ["UNPARSEABLE"] + toks[1:]
    return res


def write_cases(path, cases):
    os.makedirs(os.path.dirname(path), exist_ok=True)
    with open(path, "w") as f:
        for cid, ints in cases:
            f.write(cid + " " + " ".join(str(int(x)) for x in ints) + "\n")


def split_shards(cases, n):
    n = max(1, min(n, len(cases)))
    return [cases[i::n] for i in range(n)]


def run_parallel(fn, shards):
    """fn(shard_index, shard) -> dict ; runs in threads (work is in subprocesses)"""
    import concurrent.futures as cf
    res = {}
    with cf.ThreadPoolExecutor(max_workers=NPROC) as ex:
        futs = [ex.submit(fn, i, s) for i, s in enumerate(shards)]
        for f in futs:
            res.update(f.result())
    return res


# ----------------------------------------------------------------------------------------------
# known findings
def load_known(prop):
    p = os.path.join(VERIF, "known_findings.json")
    if not os.path.exists(p):
        return []
    data = json.load(open(p))
    return [e for e in data.get("findings", []) if e.get("property") == prop]


# ----------------------------------------------------------------------------------------------
def write_replay(prop, payload):
    d = os.path.join(VERIF, "replays")
    os.makedirs(d, exist_ok=True)
    blob = json.dumps(payload, sort_keys=True, indent=1)
    h = hashlib.sha256(blob.encode()).hexdigest()[:12]
    p = os.path.join(d, "%s-%s.json" % (prop, h))
    with open(p, "w") as f:
        f.write(blob + "\n")
    return p


def write_evidence(prop, ev):
    d = os.path.join(VERIF, "evidence")
    os.makedirs(d, exist_ok=True)
    with open(os.path.join(d, prop + ".json"), "w") as f:
        json.dump(ev, f, indent=1, sort_keys=True)
        f.write("\n")


def load_corpus(prop):
    """corpus/<prop>/*.case : lines `<id> ints...` (minimised failures and regression witnesses)"""
    d = os.path.join(VERIF, "corpus", prop)
    out = []
    if os.path.isdir(d):
        for fn in sorted(os.listdir(d)):
            if fn.endswith(".case"):
                for line in open(os.path.join(d, fn)):
                    toks = line.split()
                    if toks and not toks[0].startswith("#"):
                        out.append(("corpus:" + toks[0], [int(t) for t in toks[1:]]))
    return out


class Timer:
    def __init__(self):
        self.t0 = time.time()

    def s(self):
        return round(time.time() - self.t0, 2)
