//! C17 support: generic construction of `ClientAccounts` values, runtime facts of a program.
#![allow(clippy::all)]
use serde_json::json;
use star_frame::account_set::ClientAccountSet;
use star_frame::client::{DeserializeAccount, SerializeAccount};
use star_frame::instruction::InstructionDiscriminant;
use star_frame::prelude::*;
use star_frame::unsize::FromOwned;
use std::fmt::Debug;

pub fn hex(b: &[u8]) -> String {
    b.iter().map(|x| format!("{:02x}", x)).collect()
}
pub fn unhex(s: &str) -> Vec<u8> {
    (0..s.len() / 2).map(|i| u8::from_str_radix(&s[2 * i..2 * i + 2], 16).unwrap()).collect()
}

/// How the optional / variable parts of a ClientAccounts value are chosen.
#[derive(Clone, Copy, Debug)]
pub struct Mode {
    /// every `Option<_>` is `Some` (true) or `None` (false)
    pub some: bool,
    /// length of every `Vec<_>`
    pub vec_len: usize,
}

/// one choice of the client, in the order the accounts value is written down
#[derive(Clone, Debug)]
pub enum Choice {
    /// a key supplied at `path`
    Key(String, [u8; 32]),
    /// `None` at `path` (an absent `Option<_>`, or the default address of `Program` / `Sysvar`)
    Absent(String),
    /// `Some(_)` at `path`
    Present(String),
    /// a `Vec` / array of this many elements at `path`
    Len(String, usize),
}

pub struct FillCx {
    pub mode: Mode,
    pub next: u32,
    pub choices: Vec<Choice>,
}
impl FillCx {
    pub fn new(mode: Mode) -> Self {
        FillCx { mode, next: 1, choices: vec![] }
    }
    pub fn key(&mut self) -> Pubkey {
        let mut k = [0xC1u8; 32];
        k[..4].copy_from_slice(&self.next.to_le_bytes());
        k[31] = 0x17;
        self.next += 1;
        Pubkey::new_from_array(k)
    }
}
pub fn join(path: &str, seg: &str) -> String {
    if path.is_empty() {
        seg.to_string()
    } else {
        format!("{path}.{seg}")
    }
}

/// Builds a value of a `ClientAccounts` type; leaves record what was supplied under their path.
pub trait Fill: Sized {
    fn fill(cx: &mut FillCx, path: &str) -> Self;
}
impl Fill for Pubkey {
    fn fill(cx: &mut FillCx, path: &str) -> Self {
        let k = cx.key();
        cx.choices.push(Choice::Key(path.to_string(), k.to_bytes()));
        k
    }
}
impl Fill for () {
    fn fill(_cx: &mut FillCx, _path: &str) -> Self {}
}
impl<T: Fill> Fill for Option<T> {
    fn fill(cx: &mut FillCx, path: &str) -> Self {
        if cx.mode.some {
            cx.choices.push(Choice::Present(path.to_string()));
            Some(T::fill(cx, path))
        } else {
            cx.choices.push(Choice::Absent(path.to_string()));
            None
        }
    }
}
impl<T: Fill> Fill for Vec<T> {
    fn fill(cx: &mut FillCx, path: &str) -> Self {
        cx.choices.push(Choice::Len(path.to_string(), cx.mode.vec_len));
        (0..cx.mode.vec_len).map(|i| T::fill(cx, &join(path, &i.to_string()))).collect()
    }
}
impl<T: Fill, const N: usize> Fill for [T; N] {
    fn fill(cx: &mut FillCx, path: &str) -> Self {
        cx.choices.push(Choice::Len(path.to_string(), N));
        let mut i = 0usize;
        [(); N].map(|_| {
            let v = T::fill(cx, &join(path, &i.to_string()));
            i += 1;
            v
        })
    }
}
impl<T: Fill> Fill for Box<T> {
    fn fill(cx: &mut FillCx, path: &str) -> Self {
        Box::new(T::fill(cx, path))
    }
}

/// implements `Fill` for a generated `...ClientAccounts` struct with named fields
#[macro_export]
macro_rules! fill_struct {
    ([$($gen:tt)*] $ty:ty { $($f:ident),* $(,)? }) => {
        impl<$($gen)*> $crate::Fill for $ty {
            fn fill(cx: &mut $crate::FillCx, path: &str) -> Self {
                Self { $($f: $crate::Fill::fill(cx, &$crate::join(path, stringify!($f))),)* }
            }
        }
    };
}

pub const MODES: [Mode; 3] =
    [Mode { some: false, vec_len: 0 }, Mode { some: true, vec_len: 2 }, Mode { some: false, vec_len: 1 }];

/// client metas of one instruction under every fill mode
pub fn metas_of<A>(program_id: &Pubkey) -> Value
where
    A: ClientAccountSet,
    A::ClientAccounts: Fill,
{
    let mut runs = vec![];
    for mode in MODES {
        let mut cx = FillCx::new(mode);
        let accounts = <A::ClientAccounts as Fill>::fill(&mut cx, "");
        let mut metas = vec![];
        A::extend_account_metas(program_id, &accounts, &mut metas);
        runs.push(json!({
            "some": mode.some, "vec_len": mode.vec_len,
            "choices": cx.choices.iter().map(|c| match c {
                Choice::Key(p, k) => json!(["K", p, hex(k)]),
                Choice::Absent(p) => json!(["N", p]),
                Choice::Present(p) => json!(["S", p]),
                Choice::Len(p, n) => json!(["L", p, n]),
            }).collect::<Vec<_>>(),
            "metas": metas.iter().map(|m| json!([hex(&m.pubkey.to_bytes()), m.is_signer, m.is_writable])).collect::<Vec<_>>(),
        }));
    }
    json!(runs)
}

/// one instruction: IDL key (`item_source`), the discriminant the dispatcher matches on, client metas
pub fn ix_facts<P, I, A>(metas: Option<Value>) -> Value
where
    P: StarFrameProgram,
    I: InstructionDiscriminant<P::InstructionSet> + StarFrameInstruction<Accounts<'static, 'static> = A>,
{
    json!({
        "source": star_frame::star_frame_idl::item_source::<I>(),
        "discriminant": hex(star_frame::bytemuck::bytes_of(&<I as InstructionDiscriminant<P::InstructionSet>>::DISCRIMINANT)),
        "metas": metas,
    })
}

/// parser / serializer of one described type, driven with bytes: (debug text of the owned value, re-serialised bytes)
pub type Codec = fn(&[u8]) -> Result<(String, Vec<u8>), String>;

pub fn unsized_account_codec<T>(data: &[u8]) -> Result<(String, Vec<u8>), String>
where
    T: UnsizedType + ProgramAccount + FromOwned + ?Sized,
    T::Owned: Debug,
{
    let owned = T::deserialize_account(data).map_err(|e| format!("{e}"))?;
    let dbg = format!("{:?}", owned);
    let bytes = T::serialize_account(owned).map_err(|e| format!("{e}"))?;
    Ok((dbg, bytes))
}

pub fn borsh_account_codec<T>(data: &[u8]) -> Result<(String, Vec<u8>), String>
where
    T: star_frame::borsh::BorshDeserialize + star_frame::borsh::BorshSerialize + ProgramAccount + Debug,
{
    let owned = <T as star_frame::client::DeserializeBorshAccount>::deserialize_account(data).map_err(|e| format!("{e}"))?;
    let dbg = format!("{:?}", owned);
    let bytes = <T as star_frame::client::SerializeBorshAccount>::serialize_account(&owned).map_err(|e| format!("{e}"))?;
    Ok((dbg, bytes))
}

/// instruction data without the discriminant (what `star_frame_instruction_data` appends after it)
pub fn borsh_args_codec<T>(data: &[u8]) -> Result<(String, Vec<u8>), String>
where
    T: star_frame::borsh::BorshDeserialize + star_frame::borsh::BorshSerialize + Debug,
{
    let owned = <T as star_frame::borsh::BorshDeserialize>::try_from_slice(data).map_err(|e| format!("{e}"))?;
    let dbg = format!("{:?}", owned);
    let bytes = star_frame::borsh::to_vec(&owned).map_err(|e| format!("{e}"))?;
    Ok((dbg, bytes))
}
pub fn borsh_args_codec_nodebug<T>(data: &[u8]) -> Result<(String, Vec<u8>), String>
where
    T: star_frame::borsh::BorshDeserialize + star_frame::borsh::BorshSerialize,
{
    let owned = <T as star_frame::borsh::BorshDeserialize>::try_from_slice(data).map_err(|e| format!("{e}"))?;
    let bytes = star_frame::borsh::to_vec(&owned).map_err(|e| format!("{e}"))?;
    Ok((String::new(), bytes))
}

pub fn account_facts<T: ProgramAccount + ?Sized>() -> Value {
    json!({
        "source": star_frame::star_frame_idl::item_source::<T>(),
        "discriminant": hex(star_frame::bytemuck::bytes_of(&T::DISCRIMINANT)),
    })
}

/// what a program hands back
pub struct Probe {
    pub name: &'static str,
    pub idl: fn() -> Result<star_frame::star_frame_idl::IdlDefinition, String>,
    pub program_id: [u8; 32],
    pub instructions: Vec<Value>,
    pub accounts: Vec<Value>,
    /// (source key, kind "account" | "args", has_debug, codec)
    pub codecs: Vec<(String, &'static str, bool, Codec)>,
    /// instructions / account sets the generator could not build client accounts for (with the reason)
    pub skipped: Vec<(String, String)>,
}

pub use serde_json::Value;
/// registration of the described items of source file `K` of a wrapper crate (implemented for the crate's marker type)
pub trait FileItems<const K: usize> {
    fn register(accounts: &mut Vec<Value>, codecs: &mut Vec<(String, &'static str, bool, Codec)>);
}

// Fill impls for the account sets of the programs bound inside the framework crates (orphan rule: they must
// live beside the trait)
include!("/verif/work/c17/gen_ext_fill.rs");

// ------------------------------------------------------------------------------------------------
// small helpers shared with the other harnesses (copied: this crate must not link /verif/harness, which
// depends on /repo by path, when the check runs against another working tree)
use std::io::{BufRead, Write};
use std::panic::{catch_unwind, AssertUnwindSafe};

/// Run `f` catching panics; Err(()) = panicked.
pub fn guarded<T>(f: impl FnOnce() -> T) -> Result<T, ()> {
    catch_unwind(AssertUnwindSafe(f)).map_err(|_| ())
}
pub fn quiet_panics() {
    std::panic::set_hook(Box::new(|_| {}));
}
/// cases: `<id> <int>...` per line
pub fn read_cases(path: &str) -> Vec<(String, Vec<i128>)> {
    let f = std::fs::File::open(path).expect("open case file");
    let mut out = vec![];
    for line in std::io::BufReader::new(f).lines() {
        let line = line.unwrap();
        let mut it = line.split_whitespace();
        let Some(id) = it.next() else { continue };
        let ints = it.map(|t| t.parse::<i128>().expect("int")).collect();
        out.push((id.to_string(), ints));
    }
    out
}
pub struct Out {
    w: std::io::BufWriter<std::io::Stdout>,
}
impl Out {
    pub fn new() -> Self {
        Out { w: std::io::BufWriter::new(std::io::stdout()) }
    }
    pub fn line(&mut self, id: &str, obs: &[i128]) {
        write!(self.w, "{id}").unwrap();
        for o in obs {
            write!(self.w, " {o}").unwrap();
        }
        writeln!(self.w).unwrap();
    }
    pub fn flush(&mut self) {
        self.w.flush().unwrap();
    }
}
/// Cursor over a case's integers.
pub struct Cur<'a> {
    pub v: &'a [i128],
    pub i: usize,
}
impl<'a> Cur<'a> {
    pub fn new(v: &'a [i128]) -> Self {
        Cur { v, i: 0 }
    }
    pub fn next(&mut self) -> Option<i128> {
        let x = self.v.get(self.i).copied();
        if x.is_some() {
            self.i += 1;
        }
        x
    }
    pub fn take(&mut self, n: usize) -> Option<&'a [i128]> {
        if self.i + n > self.v.len() {
            return None;
        }
        let s = &self.v[self.i..self.i + n];
        self.i += n;
        Some(s)
    }
    pub fn done(&self) -> bool {
        self.i >= self.v.len()
    }
}
