//! C17 harness (crate /verif/harness_c17, own workspace, shared target dir; the per-program glue under /verif/work/c17 is
//! regenerated from /repo's working tree by tools/c17_gen.py before every build).
//!
//!   vh_c17 emit                 one JSON document: for every program (System, Token, Associated Token, every example
//!                               program, the hand-written PDA program `c17pda`, the hand-written shape programs `c17many_*`, the generated harness program `c17prog`) its IDL, the verifier's verdicts
//!                               (alone in compatibility mode, all together in strict mode), the Codama lowering or its
//!                               error, and the runtime facts (instruction / account discriminants, client metas under
//!                               three fill modes); plus the hand-built enum-discriminant lowering probes.
//!   vh_c17 ser <casefile>       lines `<id> <shape> <val ints>` -> `<id> 0 <bytes>` : serialize_account of the owned value
//!   vh_c17 parse <jsonl file>   lines {"id","program","source","hex"} -> {"id","ok","debug","hex","error"}: the real
//!                               parser + serializer of a described account / instruction-argument type
#![allow(clippy::all)]
use c17_support::*;
use serde_json::json;
use star_frame_idl::ty::{IdlEnumVariant, IdlType, IdlTypeDef};
use star_frame_idl::verifier::{verify_idl_definitions_with_mode, VerificationMode};
use star_frame_idl::{IdlDefinition, ItemInfo, ProgramNode};

include!("/verif/harness_c17/src/prog.rs");

#[path = "/verif/work/c17/gen_ext.rs"]
mod gen_ext;
#[path = "/verif/work/c17/gen_examples.rs"]
mod gen_examples;

fn c17_probe() -> (Probe, Vec<Vec<i128>>, Vec<ShapeEntry>) {
    let ixs = c17_instructions();
    let shapes = c17_shapes();
    let p = Probe {
        name: "c17prog",
        idl: || <C17Program as star_frame::idl::ProgramToIdl>::program_to_idl().map_err(|e| format!("{e}")),
        program_id: C17_ID,
        instructions: ixs.iter().map(|x| x.0.clone()).collect(),
        accounts: shapes.iter().map(|s| json!({"source": s.source, "discriminant": hex(&s.discriminant)})).collect(),
        codecs: shapes.iter().map(|s| (s.source.clone(), "account", true, s.codec)).collect(),
        skipped: vec![],
    };
    (p, ixs.into_iter().map(|x| x.1).collect(), shapes)
}

fn probes() -> Vec<Probe> {
    let mut v = vec![gen_ext::probe_system(), gen_ext::probe_token(), gen_ext::probe_ata()];
    v.extend(gen_examples::example_probes());
    v.push(c17pda::__c17_probe());
    v.extend(c17many::__c17_probes());
    v.push(c17_probe().0);
    v
}

fn main() {
    quiet_panics();
    let args: Vec<String> = std::env::args().collect();
    let mode = args.get(1).map(String::as_str).unwrap_or("emit");
    match mode {
        "emit" => emit(),
        "ser" => ser(&args[2]),
        "parse" => parse(&args[2]),
        _ => panic!("unknown mode"),
    }
}

/// a hand-built definition with one enum type whose variants carry `width`-byte discriminants: does it lower, and to what
fn enum_probe(width: usize) -> Value {
    let vals: Vec<u64> = vec![0, 1, 0x0102_0304_0506_0708u64, u64::MAX];
    let variants: Vec<IdlEnumVariant> = vals
        .iter()
        .enumerate()
        .map(|(i, v)| IdlEnumVariant {
            name: format!("V{i}"),
            discriminant: v.to_le_bytes().iter().cloned().chain(std::iter::repeat(0)).take(width).collect(),
            description: vec![],
            type_def: None,
        })
        .collect();
    let mut d = IdlDefinition::default();
    d.metadata.crate_metadata.name = "probe".into();
    let size = match width {
        1 => IdlTypeDef::U8,
        2 => IdlTypeDef::U16,
        3 | 4 => IdlTypeDef::U32,
        _ => IdlTypeDef::U64,
    };
    d.types.insert(
        "probe::E".into(),
        IdlType {
            info: ItemInfo { name: "E".into(), source: "probe::E".into(), description: vec![] },
            generics: vec![],
            type_def: IdlTypeDef::Enum { size: Box::new(size), variants: variants.clone() },
        },
    );
    let node: Result<ProgramNode, _> = d.try_into();
    let discs: Vec<String> = variants.iter().map(|v| hex(&v.discriminant)).collect();
    match node {
        Ok(n) => {
            let v = serde_json::to_value(&n).unwrap();
            let lowered: Vec<Value> = v["definedTypes"][0]["type"]["variants"]
                .as_array()
                .map(|a| a.iter().map(|x| x["discriminator"].clone()).collect())
                .unwrap_or_default();
            json!({"width": width, "discriminants": discs, "ok": true, "lowered": lowered})
        }
        Err(e) => json!({"width": width, "discriminants": discs, "ok": false, "error": format!("{e}")}),
    }
}

/// the namespaces an IDL refers to (every `"namespace": "<name>"` of its JSON rendering, minus its own)
fn referenced_namespaces(d: &IdlDefinition) -> Vec<String> {
    fn walk(v: &Value, out: &mut Vec<String>) {
        match v {
            Value::Object(m) => {
                for (k, x) in m {
                    if k == "namespace" {
                        if let Value::String(s) = x {
                            out.push(s.clone());
                        }
                    }
                    walk(x, out);
                }
            }
            Value::Array(a) => a.iter().for_each(|x| walk(x, out)),
            _ => {}
        }
    }
    let mut out = vec![];
    walk(&serde_json::to_value(d).unwrap(), &mut out);
    out.extend(d.metadata.required_idl_definitions.keys().cloned());
    out.sort();
    out.dedup();
    out.retain(|n| *n != d.namespace());
    out
}

fn emit() {
    let ps = probes();
    let (_, adescs, shapes) = c17_probe();
    let idls: Vec<(String, Result<IdlDefinition, String>)> = ps.iter().map(|p| (p.name.to_string(), (p.idl)())).collect();
    let mut out = vec![];
    for (p, (_, idl)) in ps.iter().zip(idls.iter()) {
        let mut o = json!({"name": p.name, "program_id": hex(&p.program_id), "instructions": p.instructions, "accounts": p.accounts,
            "codecs": p.codecs.iter().map(|c| json!([c.0, c.1, c.2])).collect::<Vec<_>>() });
        if p.name == "c17prog" {
            o["adesc"] = json!(adescs.iter().map(|d| d.iter().map(|x| x.to_string()).collect::<Vec<_>>()).collect::<Vec<_>>());
            o["shapes"] = json!(shapes.iter().map(|s| json!({"source": s.source, "sdesc": s.sdesc.iter().map(|x| x.to_string()).collect::<Vec<_>>()})).collect::<Vec<_>>());
        }
        if p.name == "c17pda" {
            // the hand-written FULL layouts of the types that use #[type_to_idl(skip)] (pdaprog/src/lib.rs)
            o["skip_manifest"] = serde_json::from_str(c17pda::C17_SKIP_MANIFEST).expect("C17_SKIP_MANIFEST is JSON");
            // what the runtime hashes for every seeded instruction account (keys = c17_key_of(field path))
            o["runtime_seeds"] = json!(c17pda::c17_runtime_seeds().iter()
                .map(|(ix, path, seeds, prog)| json!({"instruction": ix, "path": path, "program": prog.to_vec(),
                    "seeds": seeds.iter().map(|s| s.iter().map(|b| *b as u64).collect::<Vec<_>>()).collect::<Vec<_>>()}))
                .collect::<Vec<_>>());
            // what the `fixed` crate says about the fixed-point fields of c17pda::Rates
            o["fixed_manifest"] = json!({"c17pda::Rates": c17pda::c17_fixed_manifest().iter()
                .map(|(n, s, b, f)| json!([n, s, b, f])).collect::<Vec<_>>()});
        }
        match idl {
            Err(e) => {
                o["idl_error"] = json!(e);
            }
            Ok(d) => {
                o["idl"] = serde_json::to_value(d).unwrap();
                o["namespace"] = json!(d.namespace());
                let compat = verify_idl_definitions_with_mode([d], VerificationMode::Compatibility);
                o["verify_compat_alone"] = json!(compat.as_ref().err().map(|e| format!("{e}")));
                // strict: together with the IDLs of the programs it references; and all programs together
                let all: Vec<&IdlDefinition> = idls.iter().filter_map(|(_, r)| r.as_ref().ok()).collect();
                let refs = referenced_namespaces(d);
                let mut set: Vec<&IdlDefinition> = vec![d];
                let mut missing = vec![];
                for r in &refs {
                    match all.iter().find(|x| x.namespace() == *r) {
                        Some(x) => set.push(x),
                        None => missing.push(r.clone()),
                    }
                }
                o["references"] = json!(refs);
                o["references_missing"] = json!(missing);
                let strict = verify_idl_definitions_with_mode(set.iter().copied(), VerificationMode::StrictGraph);
                o["verify_strict_refs"] = json!(strict.as_ref().err().map(|e| format!("{e}")));
                let strict = verify_idl_definitions_with_mode(all.iter().copied(), VerificationMode::StrictGraph);
                o["verify_strict_all"] = json!(strict.as_ref().err().map(|e| format!("{e}")));
                let node: Result<ProgramNode, _> = d.clone().try_into();
                match node {
                    Ok(n) => {
                        o["codama"] = serde_json::to_value(&n).unwrap();
                    }
                    Err(e) => {
                        o["codama_error"] = json!(format!("{e}"));
                    }
                }
            }
        }
        out.push(o);
    }
    let doc = json!({"programs": out, "enum_probes": (0..=9).map(enum_probe).collect::<Vec<_>>()});
    println!("{}", serde_json::to_string(&doc).unwrap());
}

fn ser(path: &str) {
    let shapes = c17_shapes();
    let mut out = Out::new();
    for (id, ints) in read_cases(path) {
        let idx = ints[0] as usize;
        let f = shapes[idx].ser;
        let r = guarded(|| f(&ints[1..]));
        match r {
            Ok(Ok(b)) => {
                let mut o = vec![0i128];
                o.extend(b.iter().map(|x| *x as i128));
                out.line(&id, &o);
            }
            Ok(Err(_)) => out.line(&id, &[1]),
            Err(()) => out.line(&id, &[2]),
        }
    }
    out.flush();
}

fn parse(path: &str) {
    let ps = probes();
    let text = std::fs::read_to_string(path).unwrap();
    for line in text.lines() {
        if line.trim().is_empty() {
            continue;
        }
        let v: Value = serde_json::from_str(line).unwrap();
        let prog = v["program"].as_str().unwrap();
        let source = v["source"].as_str().unwrap();
        let kind = v["kind"].as_str().unwrap();
        let bytes = unhex(v["hex"].as_str().unwrap());
        let codec = ps.iter().find(|p| p.name == prog).and_then(|p| p.codecs.iter().find(|c| c.0 == source && c.1 == kind));
        let o = match codec {
            None => json!({"id": v["id"], "ok": false, "error": "no codec"}),
            Some(c) => {
                let f = c.3;
                match guarded(|| f(&bytes)) {
                    Ok(Ok((dbg, b))) => json!({"id": v["id"], "ok": true, "debug": dbg, "hex": hex(&b)}),
                    Ok(Err(e)) => json!({"id": v["id"], "ok": false, "error": e}),
                    Err(()) => json!({"id": v["id"], "ok": false, "error": "panic"}),
                }
            }
        };
        println!("{}", serde_json::to_string(&o).unwrap());
    }
}
