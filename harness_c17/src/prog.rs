// The generated harness program of C17 (included at the crate root of vh_c17: the program derive declares the
// crate's `StarFrameDeclaredProgram`).  Two families:
//   * account sets spanning the account-set building blocks (each with its model descriptor `AD::adesc`),
//     including the const-generic pair Gen<true> / Gen<false> (D15), a one-field set, Option of a multi-field set,
//     MaybeMut<false, Mut<_>>;
//   * account types spanning the unsized type building blocks (each with its model descriptor `Sh::sdesc`).
use star_frame::account_set::modifiers::{MaybeMut, MaybeSigner};
use star_frame::account_set::sysvar::{InstructionsSysvar, SlotHashesSysvar};
use star_frame::empty_star_frame_instruction;
use star_frame::pinocchio::sysvars::rent::Rent;
use star_frame::prelude::*;

#[derive(StarFrameProgram)]
#[program(instruction_set = C17InstructionSet, id = Pubkey::new_from_array([0x17; 32]), no_entrypoint)]
pub struct C17Program;

pub const C17_ID: [u8; 32] = [0x17; 32];

// ------------------------------------------------------------------------------------------ account sets
/// model descriptor of an account set (the `aset` grammar of coq/IdlSem/Accounts.v)
pub trait AD {
    fn adesc(o: &mut Vec<i128>);
}
impl AD for AccountInfo {
    fn adesc(o: &mut Vec<i128>) {
        o.push(0);
    }
}
impl AD for SystemAccount {
    fn adesc(o: &mut Vec<i128>) {
        o.push(0);
    }
}
impl<T: ProgramAccount + UnsizedType + ?Sized> AD for Account<T> {
    fn adesc(o: &mut Vec<i128>) {
        o.push(0);
    }
}
impl<const M: bool, T: AD> AD for MaybeMut<M, T> {
    fn adesc(o: &mut Vec<i128>) {
        o.extend([1, M as i128]);
        T::adesc(o);
    }
}
impl<const S: bool, T: AD> AD for MaybeSigner<S, T> {
    fn adesc(o: &mut Vec<i128>) {
        o.extend([2, S as i128]);
        T::adesc(o);
    }
}
impl<T: AD> AD for Init<T> {
    fn adesc(o: &mut Vec<i128>) {
        o.push(3);
        T::adesc(o);
    }
}
fn push_addr(o: &mut Vec<i128>, k: Pubkey) {
    o.push(4);
    o.extend(k.to_bytes().iter().map(|b| *b as i128));
}
impl<T: StarFrameProgram> AD for Program<T> {
    fn adesc(o: &mut Vec<i128>) {
        push_addr(o, T::ID);
    }
}
impl<T: star_frame::account_set::sysvar::SysvarId> AD for Sysvar<T> {
    fn adesc(o: &mut Vec<i128>) {
        push_addr(o, T::id());
    }
}
impl<T: AD> AD for Option<T> {
    fn adesc(o: &mut Vec<i128>) {
        o.push(5);
        T::adesc(o);
    }
}
impl<T: AD> AD for Vec<T> {
    fn adesc(o: &mut Vec<i128>) {
        o.push(6);
        T::adesc(o);
    }
}
impl<T: AD> AD for Rest<T> {
    fn adesc(o: &mut Vec<i128>) {
        o.push(6);
        T::adesc(o);
    }
}
impl<T: AD, const N: usize> AD for [T; N] {
    fn adesc(o: &mut Vec<i128>) {
        o.extend([7, N as i128]);
        T::adesc(o);
    }
}
/// a derived multi-field set: AD + Fill of its ClientAccounts; `$id` = its name in the model, `$gens` the values
/// of its generic arguments
macro_rules! set_desc {
    ([$($g:tt)*] $t:ty, $client:ty, $id:expr, [$($gv:expr),*], { $($f:ident : $fty:ty),* $(,)? }) => {
        impl<$($g)*> AD for $t {
            fn adesc(o: &mut Vec<i128>) {
                let gens: Vec<i128> = vec![$($gv as i128),*];
                let n = { let a: &[&str] = &[$(stringify!($f)),*]; a.len() as i128 };
                o.extend([8, $id, gens.len() as i128]);
                o.extend(gens);
                o.push(n);
                $( <$fty as AD>::adesc(o); )*
            }
        }
        c17_support::fill_struct!([$($g)*] $client { $($f),* });
    };
}

#[derive(AccountSet, Debug)]
pub struct Gen<const MUT: bool> {
    pub first: MaybeMut<MUT, AccountInfo>,
    pub second: Signer,
}
set_desc!([const MUT: bool] Gen<MUT>, GenClientAccounts<MUT>, 1, [MUT], { first: MaybeMut<MUT, AccountInfo>, second: Signer });

#[derive(AccountSet, Debug)]
pub struct Flat {
    pub a: AccountInfo,
    pub b: Mut<AccountInfo>,
    pub c: Signer,
    pub d: Mut<Signer>,
    pub e: Signer<Mut<SystemAccount>>,
    pub sys: Program<System>,
    pub rent: Sysvar<Rent>,
    pub ixs: Sysvar<InstructionsSysvar>,
}
set_desc!([] Flat, FlatClientAccounts, 2, [], { a: AccountInfo, b: Mut<AccountInfo>, c: Signer, d: Mut<Signer>,
    e: Signer<Mut<SystemAccount>>, sys: Program<System>, rent: Sysvar<Rent>, ixs: Sysvar<InstructionsSysvar> });

#[derive(AccountSet, Debug)]
pub struct Opts {
    pub o1: Option<Mut<AccountInfo>>,
    pub o2: Option<Signer>,
    pub o3: Option<Program<System>>,
    pub last: AccountInfo,
}
set_desc!([] Opts, OptsClientAccounts, 3, [], { o1: Option<Mut<AccountInfo>>, o2: Option<Signer>, o3: Option<Program<System>>, last: AccountInfo });

#[derive(AccountSet, Debug)]
pub struct Manys {
    pub head: Signer,
    pub fixed: [Mut<AccountInfo>; 2],
    pub tail: Rest<Signer>,
}
set_desc!([] Manys, ManysClientAccounts, 4, [], { head: Signer, fixed: [Mut<AccountInfo>; 2], tail: Rest<Signer> });

#[derive(AccountSet, Debug)]
pub struct Pair {
    pub x: Mut<AccountInfo>,
    pub y: Signer,
}
set_desc!([] Pair, PairClientAccounts, 5, [], { x: Mut<AccountInfo>, y: Signer });

/// nested defined sets, a Vec of multi-field sets in the middle
#[derive(AccountSet, Debug)]
pub struct Nested {
    pub flat: Flat,
    pub gen: Gen<true>,
    #[decode(arg = 2)]
    pub pairs: Vec<Pair>,
    pub after: Slots,
}
set_desc!([] Nested, NestedClientAccounts, 6, [], { flat: Flat, gen: Gen<true>, pairs: Vec<Pair>, after: Slots });

#[derive(AccountSet, Debug)]
pub struct Slots {
    pub hashes: Sysvar<SlotHashesSysvar>,
    pub w: Wrapped,
}
set_desc!([] Slots, SlotsClientAccounts, 7, [], { hashes: Sysvar<SlotHashesSysvar>, w: Wrapped });

/// a derived single-account wrapper: passes its inner set through
#[derive(AccountSet, Debug)]
pub struct Wrapped(#[single_account_set] Mut<AccountInfo>);
impl AD for Wrapped {
    fn adesc(o: &mut Vec<i128>) {
        <Mut<AccountInfo> as AD>::adesc(o);
    }
}

/// exactly one field
#[derive(AccountSet, Debug)]
pub struct One {
    pub only: Mut<Signer>,
}
set_desc!([] One, OneClientAccounts, 8, [], { only: Mut<Signer> });

/// Option of a multi-field set between two accounts
#[derive(AccountSet, Debug)]
pub struct OptPair {
    pub head: AccountInfo,
    pub maybe: Option<Pair>,
    pub tail: Signer,
}
set_desc!([] OptPair, OptPairClientAccounts, 9, [], { head: AccountInfo, maybe: Option<Pair>, tail: Signer });

/// a `false` modifier over an inner set that carries the flag
#[derive(AccountSet, Debug)]
pub struct Odd {
    pub m: MaybeMut<false, Mut<AccountInfo>>,
    pub s: MaybeSigner<false, Signer>,
    pub k: AccountInfo,
}
set_desc!([] Odd, OddClientAccounts, 10, [], { m: MaybeMut<false, Mut<AccountInfo>>, s: MaybeSigner<false, Signer>, k: AccountInfo });

/// typed accounts: Account<T>, Init
#[derive(AccountSet, Debug)]
pub struct Typed {
    #[validate(funder)]
    pub payer: Mut<Signer<SystemAccount>>,
    pub system_program: Program<System>,
    #[validate(arg = Create(()))]
    pub fresh: Init<Signer<Account<T2>>>,
    pub existing: Mut<Account<T1>>,
    pub ro: Account<T3>,
}
set_desc!([] Typed, TypedClientAccounts, 11, [], { payer: Mut<Signer<SystemAccount>>, system_program: Program<System>,
    fresh: Init<Signer<Account<T2>>>, existing: Mut<Account<T1>>, ro: Account<T3> });

/// the remaining account types of the shape family
#[derive(AccountSet, Debug)]
pub struct Typed2 {
    pub a: Account<T4>,
    pub b: Mut<Account<T5>>,
    pub c: Option<Account<T6>>,
    /// an account type of another program: a cross-IDL reference
    pub foreign: Mut<Account<counter::CounterAccount>>,
}
set_desc!([] Typed2, Typed2ClientAccounts, 12, [], { a: Account<T4>, b: Mut<Account<T5>>, c: Option<Account<T6>>,
    foreign: Mut<Account<counter::CounterAccount>> });

macro_rules! ixs {
    ($( $ix:ident => $acc:ty ),* $(,)?) => {
        #[derive(InstructionSet)]
        pub enum C17InstructionSet { $( $ix($ix), )* }
        $(
            #[derive(BorshSerialize, BorshDeserialize, Debug, InstructionArgs)]
            pub struct $ix;
            impl star_frame::instruction::StarFrameInstruction for $ix {
                type ReturnType = ();
                type Accounts<'decode, 'arg> = $acc;
                fn process(_a: &mut Self::Accounts<'_, '_>, _r: Self::RunArg<'_>, _c: &mut star_frame::context::Context) -> star_frame::Result<()> {
                    Ok(())
                }
            }
        )*
        /// (instruction facts, descriptor of its account set)
        pub fn c17_instructions() -> Vec<(serde_json::Value, Vec<i128>)> {
            vec![$({
                let mut d = vec![];
                <$acc as AD>::adesc(&mut d);
                (c17_support::ix_facts::<C17Program, $ix, _>(Some(c17_support::metas_of::<$acc>(&<C17Program as StarFrameProgram>::ID))), d)
            }),*]
        }
    };
}
ixs!(
    IxGenTrue => Gen<true>,
    IxGenFalse => Gen<false>,
    IxFlat => Flat,
    IxOpts => Opts,
    IxManys => Manys,
    IxPair => Pair,
    IxNested => Nested,
    IxSlots => Slots,
    IxOne => One,
    IxOptPair => OptPair,
    IxOdd => Odd,
    IxTyped => Typed,
    IxTyped2 => Typed2,
);

// ------------------------------------------------------------------------------------------ account types
use star_frame::align1::Align1;
use star_frame::bytemuck::{CheckedBitPattern, NoUninit};
use star_frame::unsize::FromOwned;
use std::collections::{BTreeMap, BTreeSet};
use c17_support::Cur;

/// fixed-size leaves: model descriptor `sfix`
pub trait Fx17: CheckedBitPattern + NoUninit + Align1 + Copy + 'static {
    fn xdesc(o: &mut Vec<i128>);
}
macro_rules! fx_prim { ($($t:ty => $k:expr),*) => { $( impl Fx17 for $t { fn xdesc(o: &mut Vec<i128>) { o.extend([0, $k]); } } )* } }
fx_prim!(bool => 0, u8 => 1, i8 => 2, PackedValue<u16> => 3, PackedValue<i16> => 4, PackedValue<u32> => 5, PackedValue<u64> => 8,
         PackedValue<i64> => 9, PackedValue<u128> => 11, Pubkey => 14);
impl<T: Fx17, const N: usize> Fx17 for [T; N]
where
    [T; N]: CheckedBitPattern + NoUninit + Align1,
{
    fn xdesc(o: &mut Vec<i128>) {
        o.extend([1, N as i128]);
        T::xdesc(o);
    }
}
fn fx_from<T: Fx17>(b: &[u8]) -> T {
    *star_frame::bytemuck::checked::try_from_bytes::<T>(b).expect("generator produced an invalid bit pattern")
}
fn cur_bytes(c: &mut Cur) -> Vec<u8> {
    let n = c.next().unwrap() as usize;
    c.take(n).unwrap().iter().map(|x| *x as u8).collect()
}
pub trait Lw17: star_frame::unsize::impls::ListLength + 'static {
    const W: i128;
}
impl Lw17 for u8 {
    const W: i128 = 1;
}
impl Lw17 for u16 {
    const W: i128 = 2;
}
impl Lw17 for u32 {
    const W: i128 = 4;
}
impl Lw17 for u64 {
    const W: i128 = 8;
}

/// unsized shapes: model descriptor `sty`, owned value from the model's `val` integers (of the erased layout type)
pub trait Sh: UnsizedType + FromOwned {
    fn sdesc(o: &mut Vec<i128>);
    fn from_val(c: &mut Cur) -> Self::Owned;
}
impl<T: Fx17, L: Lw17> Sh for List<T, L> {
    fn sdesc(o: &mut Vec<i128>) {
        o.extend([1, L::W]);
        T::xdesc(o);
    }
    fn from_val(c: &mut Cur) -> Vec<T> {
        assert_eq!(c.next(), Some(1));
        let n = c.next().unwrap() as usize;
        (0..n).map(|_| fx_from::<T>(&cur_bytes(c))).collect()
    }
}
impl<K, V, L> Sh for Map<K, V, L>
where
    K: Fx17 + star_frame::unsize::impls::UnsizedGenerics + Ord,
    V: Fx17 + star_frame::unsize::impls::UnsizedGenerics,
    L: Lw17,
{
    fn sdesc(o: &mut Vec<i128>) {
        o.extend([2, L::W]);
        K::xdesc(o);
        V::xdesc(o);
    }
    fn from_val(c: &mut Cur) -> BTreeMap<K, V> {
        assert_eq!(c.take(3), Some(&[3i128, 1, 1][..]));
        let n = c.next().unwrap() as usize;
        let ks = std::mem::size_of::<K>();
        (0..n)
            .map(|_| {
                let b = cur_bytes(c);
                (fx_from::<K>(&b[..ks]), fx_from::<V>(&b[ks..]))
            })
            .collect()
    }
}
impl<K, L> Sh for Set<K, L>
where
    K: Fx17 + star_frame::unsize::impls::UnsizedGenerics + Ord,
    L: Lw17,
{
    fn sdesc(o: &mut Vec<i128>) {
        o.extend([3, L::W]);
        K::xdesc(o);
    }
    fn from_val(c: &mut Cur) -> BTreeSet<K> {
        assert_eq!(c.take(3), Some(&[3i128, 1, 1][..]));
        let n = c.next().unwrap() as usize;
        (0..n).map(|_| fx_from::<K>(&cur_bytes(c))).collect()
    }
}
impl Sh for UnsizedString<u32> {
    fn sdesc(o: &mut Vec<i128>) {
        o.push(4);
    }
    fn from_val(c: &mut Cur) -> String {
        assert_eq!(c.take(3), Some(&[3i128, 1, 1][..]));
        let n = c.next().unwrap() as usize;
        let b: Vec<u8> = (0..n).map(|_| cur_bytes(c)[0]).collect();
        String::from_utf8(b).expect("generator produces ASCII")
    }
}
impl Sh for RemainingBytes {
    fn sdesc(o: &mut Vec<i128>) {
        o.push(5);
    }
    fn from_val(c: &mut Cur) -> Vec<u8> {
        assert_eq!(c.next(), Some(0));
        cur_bytes(c)
    }
}
impl<T: Sh + ?Sized> Sh for UnsizedList<T> {
    fn sdesc(o: &mut Vec<i128>) {
        o.push(6);
        T::sdesc(o);
    }
    fn from_val(c: &mut Cur) -> Vec<T::Owned> {
        assert_eq!(c.next(), Some(2));
        let n = c.next().unwrap() as usize;
        (0..n)
            .map(|_| {
                assert_eq!(c.next(), Some(0));
                T::from_val(c)
            })
            .collect()
    }
}
impl<K, V> Sh for UnsizedMap<K, V>
where
    K: Fx17 + star_frame::bytemuck::Pod + Ord,
    V: Sh + ?Sized,
{
    fn sdesc(o: &mut Vec<i128>) {
        o.push(7);
        K::xdesc(o);
        V::sdesc(o);
    }
    fn from_val(c: &mut Cur) -> BTreeMap<K, V::Owned> {
        assert_eq!(c.take(3), Some(&[3i128, 1, 2][..]));
        let n = c.next().unwrap() as usize;
        (0..n)
            .map(|_| {
                let k = cur_bytes(c);
                (fx_from::<K>(&k), V::from_val(c))
            })
            .collect()
    }
}

/// generated unsized struct: `sized` fields form the packed sized part, `unsized` the fields after #[unsized_start]
macro_rules! struct_sh {
    ($t:ident, $owned:ident, sized: [$(($sf:ident, $sty:ty)),*], unsized: [$(($f:ident, $fty:ty)),*]) => {
        impl Sh for $t {
            fn sdesc(o: &mut Vec<i128>) {
                let ns = { let a: &[&str] = &[$(stringify!($sf)),*]; a.len() as i128 };
                let nu = { let a: &[&str] = &[$(stringify!($f)),*]; a.len() as i128 };
                o.extend([8, ns]);
                $( <$sty as Fx17>::xdesc(o); )*
                o.push(nu);
                $( <$fty as Sh>::sdesc(o); )*
            }
            #[allow(unused_mut, unused_variables, unused_assignments)]
            fn from_val(c: &mut Cur) -> $owned {
                assert_eq!(c.next(), Some(3));
                let _n = c.next().unwrap();
                let ns = { let a: &[&str] = &[$(stringify!($sf)),*]; a.len() };
                let mut sb: Vec<u8> = vec![];
                if ns > 0 {
                    assert_eq!(c.next(), Some(0));
                    sb = cur_bytes(c);
                }
                let mut off = 0usize;
                $( let $sf: $sty = { let n = std::mem::size_of::<$sty>(); let v = fx_from::<$sty>(&sb[off..off + n]); off += n; v }; )*
                $( let $f = <$fty as Sh>::from_val(c); )*
                $owned { $($sf,)* $($f,)* }
            }
        }
    };
}

/// a unit-only #[repr(u8)] enum with derived IDL (a Defined enum type)
#[zero_copy]
#[derive(Debug, PartialEq, Eq, PartialOrd, Ord, TypeToIdl)]
#[repr(u8)]
pub enum Side {
    Bid,
    Ask = 5,
    Both,
}
impl Fx17 for Side {
    fn xdesc(o: &mut Vec<i128>) {
        o.extend([3, 3, 0, 5, 6]);
    }
}
/// a packed plain-data struct with derived IDL (a Defined struct type)
#[zero_copy(pod)]
#[derive(Debug, PartialEq, Eq, PartialOrd, Ord, TypeToIdl)]
pub struct Cell {
    pub id: u64,
    pub tag: u8,
    pub key: Pubkey,
    pub pair: [PackedValue<u16>; 2],
}
impl Fx17 for Cell {
    fn xdesc(o: &mut Vec<i128>) {
        o.extend([2, 4, 0, 8, 0, 1, 0, 14, 1, 2, 0, 3]);
    }
}
/// a packed struct with checked fields (bool, enum)
#[zero_copy]
#[derive(Debug, PartialEq, Eq, TypeToIdl)]
pub struct Checked {
    pub on: bool,
    pub side: Side,
    pub n: u32,
}
impl Fx17 for Checked {
    fn xdesc(o: &mut Vec<i128>) {
        o.extend([2, 3, 0, 0]);
        Side::xdesc(o);
        o.extend([0, 5]);
    }
}

#[unsized_type(program_account)]
pub struct T1 {
    pub s: u8,
    pub flag: bool,
    pub k: PackedValue<u16>,
    pub key: Pubkey,
    pub arr: [u8; 3],
    pub side: Side,
    pub cell: Cell,
    #[unsized_start]
    pub a: List<u8>,
    pub b: List<PackedValue<u16>, u8>,
    pub c: List<bool, u16>,
    pub d: List<Cell, u64>,
    pub e: List<Side, u8>,
}
struct_sh!(T1, T1Owned, sized: [(s, u8), (flag, bool), (k, PackedValue<u16>), (key, Pubkey), (arr, [u8; 3]), (side, Side), (cell, Cell)],
    unsized: [(a, List<u8>), (b, List<PackedValue<u16>, u8>), (c, List<bool, u16>), (d, List<Cell, u64>), (e, List<Side, u8>)]);

#[unsized_type(program_account)]
pub struct T2 {
    #[unsized_start]
    pub a: List<u8>,
    pub inner: UnsizedList<List<u8>>,
    pub rest: RemainingBytes,
}
struct_sh!(T2, T2Owned, sized: [], unsized: [(a, List<u8>), (inner, UnsizedList<List<u8>>), (rest, RemainingBytes)]);

/// a described type of another program used as a field: an external type
impl Fx17 for counter::CounterAccountData {
    fn xdesc(o: &mut Vec<i128>) {
        o.extend([2, 5, 0, 1, 0, 14, 0, 14, 0, 8, 0, 1]);
    }
}

#[unsized_type(program_account)]
pub struct T3 {
    pub version: u8,
    pub ext: counter::CounterAccountData,
    #[unsized_start]
    pub m: Map<u8, PackedValue<u16>, u8>,
    pub m2: Map<Pubkey, Checked>,
    pub set: Set<PackedValue<u32>>,
    pub st: UnsizedString<u32>,
    pub um: UnsizedMap<u8, List<u8, u8>>,
}
struct_sh!(T3, T3Owned, sized: [(version, u8), (ext, counter::CounterAccountData)], unsized: [(m, Map<u8, PackedValue<u16>, u8>), (m2, Map<Pubkey, Checked>),
    (set, Set<PackedValue<u32>>), (st, UnsizedString<u32>), (um, UnsizedMap<u8, List<u8, u8>>)]);

/// a nested (non-account) unsized struct
#[unsized_type]
pub struct Inner {
    pub s: u8,
    pub flag: bool,
    #[unsized_start]
    pub a: List<u8>,
    pub b: List<PackedValue<u16>, u8>,
}
struct_sh!(Inner, InnerOwned, sized: [(s, u8), (flag, bool)], unsized: [(a, List<u8>), (b, List<PackedValue<u16>, u8>)]);

#[unsized_type(program_account)]
pub struct T4 {
    pub k: PackedValue<u32>,
    #[unsized_start]
    pub x: List<u8, u8>,
    pub mid: Inner,
    pub y: UnsizedList<Inner>,
    pub um2: UnsizedMap<PackedValue<u16>, Inner>,
    pub z: List<u8>,
}
struct_sh!(T4, T4Owned, sized: [(k, PackedValue<u32>)], unsized: [(x, List<u8, u8>), (mid, Inner), (y, UnsizedList<Inner>),
    (um2, UnsizedMap<PackedValue<u16>, Inner>), (z, List<u8>)]);

#[unsized_type(program_account)]
pub struct T5 {
    #[unsized_start]
    pub a: List<u8>,
    pub b: UnsizedList<List<u8>>,
    pub c: UnsizedList<UnsizedList<List<u8>>>,
    pub e: Choice,
    pub d: List<u8>,
}
struct_sh!(T5, T5Owned, sized: [], unsized: [(a, List<u8>), (b, UnsizedList<List<u8>>), (c, UnsizedList<UnsizedList<List<u8>>>), (e, Choice), (d, List<u8>)]);

/// an unsized enum
#[unsized_type]
#[repr(u8)]
pub enum Choice {
    #[default_init]
    Plain(List<u8>),
    Nested(Inner) = 4,
    Nothing,
    Lists(UnsizedList<List<u8, u8>>) = 200,
}
impl Sh for Choice {
    fn sdesc(o: &mut Vec<i128>) {
        o.extend([9, 4, 0, 1]);
        <List<u8> as Sh>::sdesc(o);
        o.extend([4, 1]);
        <Inner as Sh>::sdesc(o);
        o.extend([5, 0]);
        o.extend([200, 1]);
        <UnsizedList<List<u8, u8>> as Sh>::sdesc(o);
    }
    fn from_val(c: &mut Cur) -> ChoiceOwned {
        assert_eq!(c.next(), Some(4));
        match c.next().unwrap() {
            0 => ChoiceOwned::Plain(<List<u8> as Sh>::from_val(c)),
            4 => ChoiceOwned::Nested(<Inner as Sh>::from_val(c)),
            5 => {
                assert_eq!(c.take(2), Some(&[3i128, 0][..]));
                ChoiceOwned::Nothing
            }
            200 => ChoiceOwned::Lists(<UnsizedList<List<u8, u8>> as Sh>::from_val(c)),
            d => panic!("bad variant {d}"),
        }
    }
}

/// an enum as the account type itself
#[unsized_type(program_account)]
#[repr(u8)]
pub enum T6 {
    #[default_init]
    A(List<PackedValue<u64>, u8>),
    B(Inner),
    C = 9,
}
impl Sh for T6 {
    fn sdesc(o: &mut Vec<i128>) {
        o.extend([9, 3, 0, 1]);
        <List<PackedValue<u64>, u8> as Sh>::sdesc(o);
        o.extend([1, 1]);
        <Inner as Sh>::sdesc(o);
        o.extend([9, 0]);
    }
    fn from_val(c: &mut Cur) -> T6Owned {
        assert_eq!(c.next(), Some(4));
        match c.next().unwrap() {
            0 => T6Owned::A(<List<PackedValue<u64>, u8> as Sh>::from_val(c)),
            1 => T6Owned::B(<Inner as Sh>::from_val(c)),
            9 => {
                assert_eq!(c.take(2), Some(&[3i128, 0][..]));
                T6Owned::C
            }
            d => panic!("bad variant {d}"),
        }
    }
}

pub struct ShapeEntry {
    pub source: String,
    pub discriminant: Vec<u8>,
    pub sdesc: Vec<i128>,
    /// val integers -> serialize_account bytes (discriminant + data)
    pub ser: fn(&[i128]) -> Result<Vec<u8>, String>,
    pub codec: c17_support::Codec,
}
fn ser_account<T>(v: &[i128]) -> Result<Vec<u8>, String>
where
    T: Sh + ProgramAccount,
{
    let mut c = Cur::new(v);
    let owned = T::from_val(&mut c);
    if !c.done() {
        return Err("trailing value integers".into());
    }
    <T as star_frame::client::SerializeAccount>::serialize_account(owned).map_err(|e| format!("{e}"))
}
macro_rules! shape_entries {
    ($($t:ty),*) => {
        pub fn c17_shapes() -> Vec<ShapeEntry> {
            vec![$({
                let mut d = vec![];
                <$t as Sh>::sdesc(&mut d);
                ShapeEntry {
                    source: star_frame::star_frame_idl::item_source::<$t>(),
                    discriminant: star_frame::bytemuck::bytes_of(&<$t as ProgramAccount>::DISCRIMINANT).to_vec(),
                    sdesc: d,
                    ser: ser_account::<$t>,
                    codec: c17_support::unsized_account_codec::<$t>,
                }
            }),*]
        }
    };
}
shape_entries!(T1, T2, T3, T4, T5, T6);
