//! `c17pda`: the hand-written PDA program of the C17 harness.
//!
//! What it is for: the Codama lowering turns the find-seeds of a seeded account into a `pdaValueNode` default whose
//! account lookups name OTHER accounts of the (flattened) instruction.  A seed path is relative to the account set the
//! seeded account is declared in; a leading ':' makes it a path from the instruction's root; the segments of a longer
//! path are separated by a space (star_frame/src/idl/find_seeds.rs, `seed_path`).  This program has
//!
//!   * `OpenLedger`  : a top level seeded account; seeds = constant, two sibling paths, a typed constant (u64);
//!   * `MoveFunds`   : the derived set `VaultAccounts` nested TWICE (`source`, `dest`); inside it `vault` is seeded by the
//!                     RELATIVE path `owner` (its sibling -> `sourceOwner` / `destOwner`) and `config` by the ROOT path
//!                     `:admin`; the instruction also has an unrelated top level `owner` (and `admin_vault` seeded by it),
//!                     and `receipt`, a PDA of ANOTHER program (System) seeded by two-segment paths into the nested sets;
//!   * `Settle`      : two levels of nesting (`legs` -> `source` / `dest`), and `escrow` inside `legs` seeded by the
//!                     two-segment relative path `source owner` and the root path `:admin`.
//!
//! Validation arguments repeat at runtime what the IDL arguments say, so the IDL is what the program checks.
//!
//! Second purpose (added after the seeded change C17j): types that use `#[type_to_idl(skip)]`, documented as "this field
//! and all remaining fields will be skipped in the IDL definition" - the described layout is a PREFIX of the runtime
//! layout.  `NoteMid` / `NoteLast` / `NoteFirst` / `NoteEvent` (borsh instruction arguments) and `Journal` / `Stamp`
//! (zero-copy account data) carry the attribute on a middle, the last and the first field and inside an enum variant;
//! `C17_SKIP_MANIFEST` states their FULL field lists (what the runtime (de)serialises), written by hand beside them.
#![allow(clippy::all)]
use star_frame::prelude::*;

#[derive(StarFrameProgram)]
#[program(instruction_set = PdaInstructionSet, id = Pubkey::new_from_array([0x7d; 32]), no_entrypoint)]
pub struct PdaProgram;

#[derive(InstructionSet)]
pub enum PdaInstructionSet {
    OpenLedger(OpenLedger),
    MoveFunds(MoveFunds),
    Settle(Settle),
    NoteMid(NoteMid),
    NoteLast(NoteLast),
    NoteFirst(NoteFirst),
    NoteEvent(NoteEvent),
    Quote(Quote),
}

// ------------------------------------------------------------------------------------------ account types + seeds
#[zero_copy(pod)]
#[derive(Default, Debug, Eq, PartialEq, ProgramAccount)]
#[program_account(seeds = VaultSeeds)]
pub struct Vault {
    pub owner: Pubkey,
    pub amount: u64,
    pub bump: u8,
}
#[derive(Debug, GetSeeds, Clone)]
#[get_seeds(seed_const = b"VAULT")]
pub struct VaultSeeds {
    pub owner: Pubkey,
}

#[zero_copy(pod)]
#[derive(Default, Debug, Eq, PartialEq, ProgramAccount)]
#[program_account(seeds = ConfigSeeds)]
pub struct Config {
    pub admin: Pubkey,
    pub fee: u64,
}
#[derive(Debug, GetSeeds, Clone)]
#[get_seeds(seed_const = b"CONFIG")]
pub struct ConfigSeeds {
    pub admin: Pubkey,
}

pub const LEDGER_SERIES: u64 = 0x0102_0304_0506_0708;

#[zero_copy(pod)]
#[derive(Default, Debug, Eq, PartialEq, ProgramAccount)]
#[program_account(seeds = LedgerSeeds)]
pub struct Ledger {
    pub admin: Pubkey,
    pub owner: Pubkey,
    pub series: u64,
    pub entries: u64,
}
#[derive(Debug, GetSeeds, Clone)]
#[get_seeds(seed_const = b"LEDGER")]
pub struct LedgerSeeds {
    pub admin: Pubkey,
    pub owner: Pubkey,
    pub series: u64,
}

#[zero_copy(pod)]
#[derive(Default, Debug, Eq, PartialEq, ProgramAccount)]
#[program_account(seeds = EscrowSeeds)]
pub struct Escrow {
    pub owner: Pubkey,
    pub admin: Pubkey,
    pub locked: u64,
}
#[derive(Debug, GetSeeds, Clone)]
#[get_seeds(seed_const = b"ESCROW")]
pub struct EscrowSeeds {
    pub owner: Pubkey,
    pub admin: Pubkey,
}

/// seeds of a PDA of another program (no account type of ours)
#[derive(Debug, GetSeeds, Clone)]
#[get_seeds(seed_const = b"RECEIPT")]
pub struct ReceiptSeeds {
    pub from: Pubkey,
    pub to: Pubkey,
}

// ------------------------------------------------------------------------------------------ OpenLedger
#[derive(BorshSerialize, BorshDeserialize, Debug, InstructionArgs)]
pub struct OpenLedger {
    pub entries: u64,
    pub label: [u8; 4],
}

#[derive(AccountSet, Debug)]
pub struct OpenLedgerAccounts {
    #[validate(funder)]
    pub funder: Signer<Mut<SystemAccount>>,
    pub admin: Signer,
    pub owner: SystemAccount,
    #[validate(arg = (
        Create(()),
        Seeds(LedgerSeeds { admin: *self.admin.pubkey(), owner: *self.owner.pubkey(), series: LEDGER_SERIES }),
    ))]
    #[idl(arg = Seeds(FindLedgerSeeds {
        admin: seed_path("admin"),
        owner: seed_path("owner"),
        series: seed_const(LEDGER_SERIES),
    }))]
    pub ledger: Init<Seeded<Account<Ledger>>>,
    pub system_program: Program<System>,
}

#[star_frame_instruction]
fn OpenLedger(accounts: &mut OpenLedgerAccounts) -> Result<()> {
    let _ = accounts;
    Ok(())
}

// ------------------------------------------------------------------------------------------ the nested set
/// One side of a transfer.  The validation argument is the key of the instruction's root `admin` account.
#[derive(AccountSet, Debug)]
#[validate(arg = Pubkey)]
pub struct VaultAccounts {
    pub owner: Signer,
    /// seeded by the RELATIVE path `owner`: the sibling above, whatever this set is nested under
    #[validate(arg = Seeds(VaultSeeds { owner: *self.owner.pubkey() }))]
    #[idl(arg = Seeds(FindVaultSeeds { owner: seed_path("owner") }))]
    pub vault: Mut<Seeded<Account<Vault>>>,
    /// seeded by the ROOT path `:admin`: the instruction's top level `admin`
    #[validate(arg = Seeds(ConfigSeeds { admin: arg }))]
    #[idl(arg = Seeds(FindConfigSeeds { admin: seed_path(":admin") }))]
    pub config: Seeded<Account<Config>>,
}

// ------------------------------------------------------------------------------------------ MoveFunds
#[derive(BorshSerialize, BorshDeserialize, Debug, InstructionArgs)]
pub struct MoveFunds {
    pub amount: u64,
}

#[derive(AccountSet, Debug)]
pub struct MoveFundsAccounts {
    pub admin: Signer,
    /// NOT the owner of either vault below: a relative `owner` inside `source` / `dest` must not resolve to this one
    pub owner: SystemAccount,
    #[validate(arg = Seeds(VaultSeeds { owner: *self.owner.pubkey() }))]
    #[idl(arg = Seeds(FindVaultSeeds { owner: seed_path("owner") }))]
    pub admin_vault: Mut<Seeded<Account<Vault>>>,
    #[validate(arg = *self.admin.pubkey())]
    pub source: VaultAccounts,
    #[validate(arg = *self.admin.pubkey())]
    pub dest: VaultAccounts,
    /// a PDA of another program, seeded by accounts that sit inside the nested sets (two-segment relative paths)
    #[validate(arg = Seeds(ReceiptSeeds { from: *self.source.vault.pubkey(), to: *self.dest.vault.pubkey() }))]
    #[idl(arg = Seeds(FindReceiptSeeds { from: seed_path("source vault"), to: seed_path("dest vault") }))]
    pub receipt: Seeded<AccountInfo, ReceiptSeeds, System>,
}

#[star_frame_instruction]
fn MoveFunds(accounts: &mut MoveFundsAccounts) -> Result<()> {
    let _ = accounts;
    Ok(())
}

// ------------------------------------------------------------------------------------------ Settle
/// both sides and their escrow: a set that nests `VaultAccounts` and is itself nested by the instruction
#[derive(AccountSet, Debug)]
#[validate(arg = Pubkey)]
pub struct TransferAccounts {
    #[validate(arg = arg)]
    pub source: VaultAccounts,
    #[validate(arg = arg)]
    pub dest: VaultAccounts,
    #[validate(arg = Seeds(EscrowSeeds { owner: *self.source.owner.pubkey(), admin: arg }))]
    #[idl(arg = Seeds(FindEscrowSeeds { owner: seed_path("source owner"), admin: seed_path(":admin") }))]
    pub escrow: Mut<Seeded<Account<Escrow>>>,
}

#[derive(BorshSerialize, BorshDeserialize, Debug, InstructionArgs)]
pub struct Settle;

#[derive(AccountSet, Debug)]
pub struct SettleAccounts {
    pub admin: Signer,
    #[validate(arg = *self.admin.pubkey())]
    pub legs: TransferAccounts,
}

#[star_frame_instruction]
fn Settle(accounts: &mut SettleAccounts) -> Result<()> {
    let _ = accounts;
    Ok(())
}

// ------------------------------------------------------------------------------------------ #[type_to_idl(skip)]
/// account data, skip in the MIDDLE: the IDL describes `owner`, `count`; `scratch` and `tail` are hidden
#[zero_copy(pod)]
#[derive(Default, Debug, Eq, PartialEq, ProgramAccount)]
pub struct Journal {
    pub owner: Pubkey,
    pub count: u64,
    #[type_to_idl(skip)]
    pub scratch: u16,
    pub tail: u32,
}

/// account data, skip on the FIRST field: the IDL describes nothing
#[zero_copy(pod)]
#[derive(Default, Debug, Eq, PartialEq, ProgramAccount)]
pub struct Stamp {
    #[type_to_idl(skip)]
    pub secret: u32,
    pub shown: u64,
}

#[derive(AccountSet, Debug)]
pub struct NoteAccounts {
    pub author: Signer,
    pub journal: Mut<Account<Journal>>,
    pub stamp: Account<Stamp>,
}

/// instruction arguments, skip in the MIDDLE
#[derive(BorshSerialize, BorshDeserialize, Debug, InstructionArgs)]
pub struct NoteMid {
    pub version: u8,
    pub owner: Pubkey,
    #[type_to_idl(skip)]
    pub scratch: u16,
    pub total: u64,
    pub flag: bool,
}

/// instruction arguments, skip on the LAST field
#[derive(BorshSerialize, BorshDeserialize, Debug, InstructionArgs)]
pub struct NoteLast {
    pub version: u8,
    pub total: i64,
    #[type_to_idl(skip)]
    pub scratch: [u8; 3],
}

/// instruction arguments, skip on the FIRST field
#[derive(BorshSerialize, BorshDeserialize, Debug, InstructionArgs)]
pub struct NoteFirst {
    #[type_to_idl(skip)]
    pub secret: u32,
    pub shown: u64,
}

/// an enum whose variants skip a middle field / the last field
#[derive(BorshSerialize, BorshDeserialize, Debug, Clone, Copy, TypeToIdl)]
#[repr(u8)]
pub enum Event {
    Nothing,
    Transfer {
        amount: u64,
        #[type_to_idl(skip)]
        memo_len: u8,
        fee: u32,
    },
    Mark {
        at: u32,
        by: Pubkey,
        #[type_to_idl(skip)]
        nonce: u16,
    },
    Plain {
        a: u16,
        b: u8,
    },
}

/// instruction arguments whose LAST field is that enum (a hidden suffix anywhere else would shift what follows it)
#[derive(BorshSerialize, BorshDeserialize, Debug, InstructionArgs)]
pub struct NoteEvent {
    pub tag: u8,
    pub event: Event,
}

#[star_frame_instruction]
fn NoteMid(accounts: &mut NoteAccounts) -> Result<()> {
    let _ = accounts;
    Ok(())
}
#[star_frame_instruction]
fn NoteLast(accounts: &mut NoteAccounts) -> Result<()> {
    let _ = accounts;
    Ok(())
}
#[star_frame_instruction]
fn NoteFirst(accounts: &mut NoteAccounts) -> Result<()> {
    let _ = accounts;
    Ok(())
}
#[star_frame_instruction]
fn NoteEvent(accounts: &mut NoteAccounts) -> Result<()> {
    let _ = accounts;
    Ok(())
}

// ------------------------------------------------------------------------------------------ fixed-point fields
/// Account data with a fixed-point field of every storage integer, signed and unsigned (the IDL describes such a field as
/// `FixedPoint { ty: <the integer the bits are stored in>, frac }`).  Debug prints the STORED INTEGER of every field
/// (`to_bits()`), which is what a reader of the IDL layout obtains before scaling by 2^-frac.
#[zero_copy(pod)]
#[derive(Default, Eq, PartialEq, ProgramAccount)]
pub struct Rates {
    pub s128: star_frame::fixed::types::I80F48,
    pub u128: star_frame::fixed::types::U64F64,
    pub s64: star_frame::fixed::types::I48F16,
    pub u64: star_frame::fixed::types::U32F32,
    pub s32: star_frame::fixed::types::I16F16,
    pub u32: star_frame::fixed::types::U20F12,
    pub s16: star_frame::fixed::types::I8F8,
    pub u16: star_frame::fixed::types::U12F4,
    pub s8: star_frame::fixed::types::I4F4,
    pub u8: star_frame::fixed::types::U1F7,
}
impl core::fmt::Debug for Rates {
    fn fmt(&self, f: &mut core::fmt::Formatter<'_>) -> core::fmt::Result {
        let (a, b, c, d, e, g, h, i, j, k) =
            (self.s128, self.u128, self.s64, self.u64, self.s32, self.u32, self.s16, self.u16, self.s8, self.u8);
        f.debug_struct("Rates")
            .field("s128", &a.to_bits())
            .field("u128", &b.to_bits())
            .field("s64", &c.to_bits())
            .field("u64", &d.to_bits())
            .field("s32", &e.to_bits())
            .field("u32", &g.to_bits())
            .field("s16", &h.to_bits())
            .field("u16", &i.to_bits())
            .field("s8", &j.to_bits())
            .field("u8", &k.to_bits())
            .finish()
    }
}
/// what the `fixed` crate itself says about the fields of `Rates`: (field, signed, storage bits, fractional bits)
pub fn c17_fixed_manifest() -> Vec<(&'static str, bool, u32, u32)> {
    use star_frame::fixed::types::*;
    macro_rules! row {
        ($n:literal, $t:ty) => {
            ($n, <$t>::IS_SIGNED, (core::mem::size_of::<$t>() * 8) as u32, <$t>::FRAC_NBITS)
        };
    }
    vec![
        row!("s128", I80F48), row!("u128", U64F64), row!("s64", I48F16), row!("u64", U32F32), row!("s32", I16F16),
        row!("u32", U20F12), row!("s16", I8F8), row!("u16", U12F4), row!("s8", I4F4), row!("u8", U1F7),
    ]
}

#[derive(AccountSet, Debug)]
pub struct QuoteAccounts {
    pub author: Signer,
    pub rates: Account<Rates>,
}
#[derive(BorshSerialize, BorshDeserialize, Debug, InstructionArgs)]
pub struct Quote {
    pub market: u8,
}
#[star_frame_instruction]
fn Quote(accounts: &mut QuoteAccounts) -> Result<()> {
    let _ = accounts;
    Ok(())
}

// ------------------------------------------------------------------------------------------ runtime seeds
/// The key the probe assigns to the instruction account at field path `path` (segments separated by spaces, from the
/// instruction's root) - lib/props/c17.py computes the same function.
pub fn c17_key_of(path: &str) -> Pubkey {
    let mut b = [0u8; 32];
    for (i, c) in path.bytes().enumerate() {
        b[i % 32] = b[i % 32].wrapping_mul(31).wrapping_add(c);
    }
    b[31] = path.len() as u8;
    Pubkey::new_from_array(b)
}
/// What the RUNTIME hashes for every seeded instruction account of this program when the accounts carry the keys
/// `c17_key_of(path)`: (instruction, field path of the seeded account, `GetSeeds::seeds()` of the seeds value its
/// `#[validate(arg = Seeds(..))]` attribute builds - each row mirrors that attribute, written out by hand).  The IDL's
/// find-seeds of the same account, resolved over the same keys, have to give the same byte strings: a client derives the
/// address from the IDL, `Seeded` validation accepts only the address of these.
pub fn c17_runtime_seeds() -> Vec<(&'static str, &'static str, Vec<Vec<u8>>, [u8; 32])> {
    let k = c17_key_of;
    fn own<S: GetSeeds>(s: S) -> Vec<Vec<u8>> {
        s.seeds().iter().map(|x| x.to_vec()).collect()
    }
    let vault = |owner: &str| own(VaultSeeds { owner: k(owner) });
    let config = |admin: &str| own(ConfigSeeds { admin: k(admin) });
    let own_id = <PdaProgram as StarFrameProgram>::ID.to_bytes();
    // the program the address is derived under: the seeded account's `P` (`Seeded<T, S, P>`), this program by default
    let sys_id = <System as StarFrameProgram>::ID.to_bytes();
    vec![
        ("OpenLedger", "ledger", own(LedgerSeeds { admin: k("admin"), owner: k("owner"), series: LEDGER_SERIES }), own_id),
        ("MoveFunds", "admin_vault", vault("owner"), own_id),
        ("MoveFunds", "source vault", vault("source owner"), own_id),
        ("MoveFunds", "source config", config("admin"), own_id),
        ("MoveFunds", "dest vault", vault("dest owner"), own_id),
        ("MoveFunds", "dest config", config("admin"), own_id),
        ("MoveFunds", "receipt", own(ReceiptSeeds { from: k("source vault"), to: k("dest vault") }), sys_id),
        ("Settle", "legs source vault", vault("legs source owner"), own_id),
        ("Settle", "legs source config", config("admin"), own_id),
        ("Settle", "legs dest vault", vault("legs dest owner"), own_id),
        ("Settle", "legs dest config", config("admin"), own_id),
        ("Settle", "legs escrow", own(EscrowSeeds { owner: k("legs source owner"), admin: k("admin") }), own_id),
    ]
}

/// The FULL layouts of the types above as the runtime (de)serialises them, written by hand from the declarations
/// (nothing here is derived from the IDL): per type its kind ("args" = borsh instruction data after the discriminant,
/// "account" = account data after the discriminant) and its layout
///   "u8" | "u16" | "u32" | "u64" | "i64" | "bool" | "pubkey" | {"array": [layout, n]}
///   | {"struct": [[field, layout]..], "skip": index of the field carrying #[type_to_idl(skip)] or null}
///   | {"enum": [[variant, discriminant, null | struct layout]..]}                       (one discriminant byte)
/// lib/props/c17.py drives the real parsers with bytes laid out like this, requires the real serialiser to give the same
/// bytes back and the Debug rendering to show these fields, and only then compares with the IDL.
pub const C17_SKIP_MANIFEST: &str = r#"{
  "c17pda::Journal": {"kind": "account", "layout":
    {"struct": [["owner", "pubkey"], ["count", "u64"], ["scratch", "u16"], ["tail", "u32"]], "skip": 2}},
  "c17pda::Stamp": {"kind": "account", "layout":
    {"struct": [["secret", "u32"], ["shown", "u64"]], "skip": 0}},
  "c17pda::NoteMid": {"kind": "args", "layout":
    {"struct": [["version", "u8"], ["owner", "pubkey"], ["scratch", "u16"], ["total", "u64"], ["flag", "bool"]], "skip": 2}},
  "c17pda::NoteLast": {"kind": "args", "layout":
    {"struct": [["version", "u8"], ["total", "i64"], ["scratch", {"array": ["u8", 3]}]], "skip": 2}},
  "c17pda::NoteFirst": {"kind": "args", "layout":
    {"struct": [["secret", "u32"], ["shown", "u64"]], "skip": 0}},
  "c17pda::NoteEvent": {"kind": "args", "layout":
    {"struct": [["tag", "u8"], ["event", {"enum": [
        ["Nothing", 0, null],
        ["Transfer", 1, {"struct": [["amount", "u64"], ["memo_len", "u8"], ["fee", "u32"]], "skip": 1}],
        ["Mark", 2, {"struct": [["at", "u32"], ["by", "pubkey"], ["nonce", "u16"]], "skip": 2}],
        ["Plain", 3, {"struct": [["a", "u16"], ["b", "u8"]], "skip": null}]]}]], "skip": null}}
}"#;

// ------------------------------------------------------------------------------------------ C17 correspondence glue
// (what tools/c17_gen.py appends to the copies of the example programs, written by hand here)
c17_support::fill_struct!([] OpenLedgerClientAccounts { funder, admin, owner, ledger, system_program });
c17_support::fill_struct!([] VaultClientAccounts { owner, vault, config });
c17_support::fill_struct!([] MoveFundsClientAccounts { admin, owner, admin_vault, source, dest, receipt });
c17_support::fill_struct!([] TransferClientAccounts { source, dest, escrow });
c17_support::fill_struct!([] SettleClientAccounts { admin, legs });
c17_support::fill_struct!([] NoteClientAccounts { author, journal, stamp });
c17_support::fill_struct!([] QuoteClientAccounts { author, rates });

pub fn __c17_probe() -> c17_support::Probe {
    use c17_support::*;
    type P = PdaProgram;
    let id = &<P as StarFrameProgram>::ID;
    let instructions = vec![
        ix_facts::<P, OpenLedger, _>(Some(metas_of::<<OpenLedger as StarFrameInstruction>::Accounts<'static, 'static>>(id))),
        ix_facts::<P, MoveFunds, _>(Some(metas_of::<<MoveFunds as StarFrameInstruction>::Accounts<'static, 'static>>(id))),
        ix_facts::<P, Settle, _>(Some(metas_of::<<Settle as StarFrameInstruction>::Accounts<'static, 'static>>(id))),
        ix_facts::<P, NoteMid, _>(Some(metas_of::<<NoteMid as StarFrameInstruction>::Accounts<'static, 'static>>(id))),
        ix_facts::<P, NoteLast, _>(Some(metas_of::<<NoteLast as StarFrameInstruction>::Accounts<'static, 'static>>(id))),
        ix_facts::<P, NoteFirst, _>(Some(metas_of::<<NoteFirst as StarFrameInstruction>::Accounts<'static, 'static>>(id))),
        ix_facts::<P, NoteEvent, _>(Some(metas_of::<<NoteEvent as StarFrameInstruction>::Accounts<'static, 'static>>(id))),
        ix_facts::<P, Quote, _>(Some(metas_of::<<Quote as StarFrameInstruction>::Accounts<'static, 'static>>(id))),
    ];
    let accounts = vec![
        account_facts::<Vault>(),
        account_facts::<Config>(),
        account_facts::<Ledger>(),
        account_facts::<Escrow>(),
        account_facts::<Journal>(),
        account_facts::<Stamp>(),
        account_facts::<Rates>(),
    ];
    let codecs: Vec<(String, &'static str, bool, Codec)> = vec![
        (star_frame::star_frame_idl::item_source::<Vault>(), "account", true, unsized_account_codec::<Vault>),
        (star_frame::star_frame_idl::item_source::<Config>(), "account", true, unsized_account_codec::<Config>),
        (star_frame::star_frame_idl::item_source::<Ledger>(), "account", true, unsized_account_codec::<Ledger>),
        (star_frame::star_frame_idl::item_source::<Escrow>(), "account", true, unsized_account_codec::<Escrow>),
        (star_frame::star_frame_idl::item_source::<OpenLedger>(), "args", true, borsh_args_codec::<OpenLedger>),
        (star_frame::star_frame_idl::item_source::<MoveFunds>(), "args", true, borsh_args_codec::<MoveFunds>),
        (star_frame::star_frame_idl::item_source::<Settle>(), "args", true, borsh_args_codec::<Settle>),
        (star_frame::star_frame_idl::item_source::<Journal>(), "account", true, unsized_account_codec::<Journal>),
        (star_frame::star_frame_idl::item_source::<Stamp>(), "account", true, unsized_account_codec::<Stamp>),
        (star_frame::star_frame_idl::item_source::<NoteMid>(), "args", true, borsh_args_codec::<NoteMid>),
        (star_frame::star_frame_idl::item_source::<NoteLast>(), "args", true, borsh_args_codec::<NoteLast>),
        (star_frame::star_frame_idl::item_source::<NoteFirst>(), "args", true, borsh_args_codec::<NoteFirst>),
        (star_frame::star_frame_idl::item_source::<NoteEvent>(), "args", true, borsh_args_codec::<NoteEvent>),
        (star_frame::star_frame_idl::item_source::<Rates>(), "account", true, unsized_account_codec::<Rates>),
        (star_frame::star_frame_idl::item_source::<Quote>(), "args", true, borsh_args_codec::<Quote>),
    ];
    Probe {
        name: "c17pda",
        idl: || <P as star_frame::idl::ProgramToIdl>::program_to_idl().map_err(|e| format!("{e}")),
        program_id: id.to_bytes(),
        instructions,
        accounts,
        codecs,
        skipped: vec![],
    }
}
