//! `c17pda`: the hand-written PDA program of the C17 harness.
//!
//! What it is for: the Codama lowering turns the find-seeds of a seeded account into a `pdaValueNode` default whose
//! account lookups name OTHER accounts of the (flattened) instruction.  A seed path is relative to the account set the
//! seeded account is declared in; a leading ':' makes it a path from the instruction's root; the segments of a longer
//! path are separated by a space (star_frame/src/idl/find_seeds.rs, `seed_path`).  This program has
//!
//!   * `OpenLedger`  : a top level seeded account; seeds = constant, two sibling paths, a typed constant (u64);
//!   * `MoveFunds`   : the derived set `VaultAccounts` nested TWICE (`source`, `dest`); inside it `vault` is seeded by the
//!                     RELATIVE path `owner` (its sibling -> `sourceOwner` / `destOwner`) and `config` by the ROOT path
//!                     `:admin`; the instruction also has an unrelated top level `owner` (and `admin_vault` seeded by it),
//!                     and `receipt`, a PDA of ANOTHER program (System) seeded by two-segment paths into the nested sets;
//!   * `Settle`      : two levels of nesting (`legs` -> `source` / `dest`), and `escrow` inside `legs` seeded by the
//!                     two-segment relative path `source owner` and the root path `:admin`.
//!
//! Validation arguments repeat at runtime what the IDL arguments say, so the IDL is what the program checks.
#![allow(clippy::all)]
use star_frame::prelude::*;

#[derive(StarFrameProgram)]
#[program(instruction_set = PdaInstructionSet, id = Pubkey::new_from_array([0x7d; 32]), no_entrypoint)]
pub struct PdaProgram;

#[derive(InstructionSet)]
pub enum PdaInstructionSet {
    OpenLedger(OpenLedger),
    MoveFunds(MoveFunds),
    Settle(Settle),
}

// ------------------------------------------------------------------------------------------ account types + seeds
#[zero_copy(pod)]
#[derive(Default, Debug, Eq, PartialEq, ProgramAccount)]
#[program_account(seeds = VaultSeeds)]
pub struct Vault {
    pub owner: Pubkey,
    pub amount: u64,
    pub bump: u8,
}
#[derive(Debug, GetSeeds, Clone)]
#[get_seeds(seed_const = b"VAULT")]
pub struct VaultSeeds {
    pub owner: Pubkey,
}

#[zero_copy(pod)]
#[derive(Default, Debug, Eq, PartialEq, ProgramAccount)]
#[program_account(seeds = ConfigSeeds)]
pub struct Config {
    pub admin: Pubkey,
    pub fee: u64,
}
#[derive(Debug, GetSeeds, Clone)]
#[get_seeds(seed_const = b"CONFIG")]
pub struct ConfigSeeds {
    pub admin: Pubkey,
}

pub const LEDGER_SERIES: u64 = 0x0102_0304_0506_0708;

#[zero_copy(pod)]
#[derive(Default, Debug, Eq, PartialEq, ProgramAccount)]
#[program_account(seeds = LedgerSeeds)]
pub struct Ledger {
    pub admin: Pubkey,
    pub owner: Pubkey,
    pub series: u64,
    pub entries: u64,
}
#[derive(Debug, GetSeeds, Clone)]
#[get_seeds(seed_const = b"LEDGER")]
pub struct LedgerSeeds {
    pub admin: Pubkey,
    pub owner: Pubkey,
    pub series: u64,
}

#[zero_copy(pod)]
#[derive(Default, Debug, Eq, PartialEq, ProgramAccount)]
#[program_account(seeds = EscrowSeeds)]
pub struct Escrow {
    pub owner: Pubkey,
    pub admin: Pubkey,
    pub locked: u64,
}
#[derive(Debug, GetSeeds, Clone)]
#[get_seeds(seed_const = b"ESCROW")]
pub struct EscrowSeeds {
    pub owner: Pubkey,
    pub admin: Pubkey,
}

/// seeds of a PDA of another program (no account type of ours)
#[derive(Debug, GetSeeds, Clone)]
#[get_seeds(seed_const = b"RECEIPT")]
pub struct ReceiptSeeds {
    pub from: Pubkey,
    pub to: Pubkey,
}

// ------------------------------------------------------------------------------------------ OpenLedger
#[derive(BorshSerialize, BorshDeserialize, Debug, InstructionArgs)]
pub struct OpenLedger {
    pub entries: u64,
    pub label: [u8; 4],
}

#[derive(AccountSet, Debug)]
pub struct OpenLedgerAccounts {
    #[validate(funder)]
    pub funder: Signer<Mut<SystemAccount>>,
    pub admin: Signer,
    pub owner: SystemAccount,
    #[validate(arg = (
        Create(()),
        Seeds(LedgerSeeds { admin: *self.admin.pubkey(), owner: *self.owner.pubkey(), series: LEDGER_SERIES }),
    ))]
    #[idl(arg = Seeds(FindLedgerSeeds {
        admin: seed_path("admin"),
        owner: seed_path("owner"),
        series: seed_const(LEDGER_SERIES),
    }))]
    pub ledger: Init<Seeded<Account<Ledger>>>,
    pub system_program: Program<System>,
}

#[star_frame_instruction]
fn OpenLedger(accounts: &mut OpenLedgerAccounts) -> Result<()> {
    let _ = accounts;
    Ok(())
}

// ------------------------------------------------------------------------------------------ the nested set
/// One side of a transfer.  The validation argument is the key of the instruction's root `admin` account.
#[derive(AccountSet, Debug)]
#[validate(arg = Pubkey)]
pub struct VaultAccounts {
    pub owner: Signer,
    /// seeded by the RELATIVE path `owner`: the sibling above, whatever this set is nested under
    #[validate(arg = Seeds(VaultSeeds { owner: *self.owner.pubkey() }))]
    #[idl(arg = Seeds(FindVaultSeeds { owner: seed_path("owner") }))]
    pub vault: Mut<Seeded<Account<Vault>>>,
    /// seeded by the ROOT path `:admin`: the instruction's top level `admin`
    #[validate(arg = Seeds(ConfigSeeds { admin: arg }))]
    #[idl(arg = Seeds(FindConfigSeeds { admin: seed_path(":admin") }))]
    pub config: Seeded<Account<Config>>,
}

// ------------------------------------------------------------------------------------------ MoveFunds
#[derive(BorshSerialize, BorshDeserialize, Debug, InstructionArgs)]
pub struct MoveFunds {
    pub amount: u64,
}

#[derive(AccountSet, Debug)]
pub struct MoveFundsAccounts {
    pub admin: Signer,
    /// NOT the owner of either vault below: a relative `owner` inside `source` / `dest` must not resolve to this one
    pub owner: SystemAccount,
    #[validate(arg = Seeds(VaultSeeds { owner: *self.owner.pubkey() }))]
    #[idl(arg = Seeds(FindVaultSeeds { owner: seed_path("owner") }))]
    pub admin_vault: Mut<Seeded<Account<Vault>>>,
    #[validate(arg = *self.admin.pubkey())]
    pub source: VaultAccounts,
    #[validate(arg = *self.admin.pubkey())]
    pub dest: VaultAccounts,
    /// a PDA of another program, seeded by accounts that sit inside the nested sets (two-segment relative paths)
    #[validate(arg = Seeds(ReceiptSeeds { from: *self.source.vault.pubkey(), to: *self.dest.vault.pubkey() }))]
    #[idl(arg = Seeds(FindReceiptSeeds { from: seed_path("source vault"), to: seed_path("dest vault") }))]
    pub receipt: Seeded<AccountInfo, ReceiptSeeds, System>,
}

#[star_frame_instruction]
fn MoveFunds(accounts: &mut MoveFundsAccounts) -> Result<()> {
    let _ = accounts;
    Ok(())
}

// ------------------------------------------------------------------------------------------ Settle
/// both sides and their escrow: a set that nests `VaultAccounts` and is itself nested by the instruction
#[derive(AccountSet, Debug)]
#[validate(arg = Pubkey)]
pub struct TransferAccounts {
    #[validate(arg = arg)]
    pub source: VaultAccounts,
    #[validate(arg = arg)]
    pub dest: VaultAccounts,
    #[validate(arg = Seeds(EscrowSeeds { owner: *self.source.owner.pubkey(), admin: arg }))]
    #[idl(arg = Seeds(FindEscrowSeeds { owner: seed_path("source owner"), admin: seed_path(":admin") }))]
    pub escrow: Mut<Seeded<Account<Escrow>>>,
}

#[derive(BorshSerialize, BorshDeserialize, Debug, InstructionArgs)]
pub struct Settle;

#[derive(AccountSet, Debug)]
pub struct SettleAccounts {
    pub admin: Signer,
    #[validate(arg = *self.admin.pubkey())]
    pub legs: TransferAccounts,
}

#[star_frame_instruction]
fn Settle(accounts: &mut SettleAccounts) -> Result<()> {
    let _ = accounts;
    Ok(())
}

// ------------------------------------------------------------------------------------------ C17 correspondence glue
// (what tools/c17_gen.py appends to the copies of the example programs, written by hand here)
c17_support::fill_struct!([] OpenLedgerClientAccounts { funder, admin, owner, ledger, system_program });
c17_support::fill_struct!([] VaultClientAccounts { owner, vault, config });
c17_support::fill_struct!([] MoveFundsClientAccounts { admin, owner, admin_vault, source, dest, receipt });
c17_support::fill_struct!([] TransferClientAccounts { source, dest, escrow });
c17_support::fill_struct!([] SettleClientAccounts { admin, legs });

pub fn __c17_probe() -> c17_support::Probe {
    use c17_support::*;
    type P = PdaProgram;
    let id = &<P as StarFrameProgram>::ID;
    let instructions = vec![
        ix_facts::<P, OpenLedger, _>(Some(metas_of::<<OpenLedger as StarFrameInstruction>::Accounts<'static, 'static>>(id))),
        ix_facts::<P, MoveFunds, _>(Some(metas_of::<<MoveFunds as StarFrameInstruction>::Accounts<'static, 'static>>(id))),
        ix_facts::<P, Settle, _>(Some(metas_of::<<Settle as StarFrameInstruction>::Accounts<'static, 'static>>(id))),
    ];
    let accounts = vec![account_facts::<Vault>(), account_facts::<Config>(), account_facts::<Ledger>(), account_facts::<Escrow>()];
    let codecs: Vec<(String, &'static str, bool, Codec)> = vec![
        (star_frame::star_frame_idl::item_source::<Vault>(), "account", true, unsized_account_codec::<Vault>),
        (star_frame::star_frame_idl::item_source::<Config>(), "account", true, unsized_account_codec::<Config>),
        (star_frame::star_frame_idl::item_source::<Ledger>(), "account", true, unsized_account_codec::<Ledger>),
        (star_frame::star_frame_idl::item_source::<Escrow>(), "account", true, unsized_account_codec::<Escrow>),
        (star_frame::star_frame_idl::item_source::<OpenLedger>(), "args", true, borsh_args_codec::<OpenLedger>),
        (star_frame::star_frame_idl::item_source::<MoveFunds>(), "args", true, borsh_args_codec::<MoveFunds>),
        (star_frame::star_frame_idl::item_source::<Settle>(), "args", true, borsh_args_codec::<Settle>),
    ];
    Probe {
        name: "c17pda",
        idl: || <P as star_frame::idl::ProgramToIdl>::program_to_idl().map_err(|e| format!("{e}")),
        program_id: id.to_bytes(),
        instructions,
        accounts,
        codecs,
        skipped: vec![],
    }
}
