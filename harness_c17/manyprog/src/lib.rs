//! `c17many`: the hand-written "variable-length group" programs of the C17 harness.
//!
//! What they are for: a Codama instruction node lists its fixed `accounts` first and its `remainingAccounts` groups
//! after them, so an account set in which a fixed account FOLLOWS a variable-length group (`Many` in the IDL: `Vec<_>`,
//! `Rest<_>`, `[_; N]`) cannot be written down in the order the program receives the accounts (the order of the client
//! metas).  The lowering refuses such a set (`ManyAccountSetsMustComeLast`, star_frame_idl/src/codama.rs).  Property C17
//! says: WHENEVER the conversion succeeds it preserves the account order - so a shape either is refused or comes out in
//! client-meta order; it must never come out reordered.
//!
//! One tiny program per shape (module = shape = program `c17many_<shape>`), because the lowering of a program fails as a
//! whole when one instruction is refused.  Every program has the single instruction `Run` over `RunAccounts`.
//!
//!   inexpressible in Codama's layout (a fixed account after a variable-length group):
//!     vec_nested_tail       { head_batch: Vec, tail: { marker, batch: Vec } }          the nested set yields BOTH kinds
//!     vec_nested_tail_deep  { head_batch: Vec, outer: { guard, inner: { marker, batch: Vec } } }   one level deeper
//!     vec_single            { batch: Vec, closer }
//!     vec_nested_fixed      { batch: Vec, pair: { first, second } }
//!     nested_tail_single    { tail: { marker, batch: Vec }, closer }
//!     array_single          { pair: [_; 2], closer }
//!   expressible (every variable-length group after every fixed account):
//!     two_vecs              { first: Vec, second: Vec }
//!     nested_tail_last      { payer, tail: { marker, batch: Vec } }
//!     rest_last             { payer, marker, others: Rest }
//!
//! lib/props/c17.py reads the shape of each program off its IDL JSON (never off this text) and keeps the list above in
//! `MANY_SHAPES`; nothing here says which shapes convert.
#![allow(clippy::all)]
#![allow(non_snake_case)]

/// the building blocks shared by the shapes
pub mod sets {
    use star_frame::prelude::*;

    /// a fixed account followed by the set's own variable-length group
    #[derive(AccountSet, Debug)]
    pub struct TailAccounts {
        pub marker: Signer,
        #[decode(arg = 1)]
        pub batch: Vec<Mut<SystemAccount>>,
    }
    /// `TailAccounts` one level further down
    #[derive(AccountSet, Debug)]
    pub struct OuterAccounts {
        pub guard: SystemAccount,
        pub inner: TailAccounts,
    }
    /// fixed accounts only
    #[derive(AccountSet, Debug)]
    pub struct PairAccounts {
        pub first: Signer,
        pub second: Mut<SystemAccount>,
    }
    c17_support::fill_struct!([] TailClientAccounts { marker, batch });
    c17_support::fill_struct!([] OuterClientAccounts { guard, inner });
    c17_support::fill_struct!([] PairClientAccounts { first, second });
}

/// one program: `$shape` = module name, `$name` = program (IDL crate) name, `$id` = the byte its program id repeats,
/// then the fields of `RunAccounts` (attributes allowed) and the field names once more for the `Fill` impl
macro_rules! shape_program {
    ($shape:ident, $name:literal, $id:literal, { $($(#[$attr:meta])* $field:ident : $ty:ty),* $(,)? }) => {
        pub mod $shape {
            #[allow(unused_imports)]
            use super::sets::*;
            use star_frame::prelude::*;

            #[derive(StarFrameProgram)]
            #[program(instruction_set = ShapeInstructionSet, id = Pubkey::new_from_array([$id; 32]), no_entrypoint, no_setup, skip_idl)]
            pub struct ShapeProgram;

            // by hand (like the framework's own System / Token programs): several programs of ONE crate need distinct
            // IDL namespaces, the derive would give all of them the crate's name
            #[cfg(feature = "idl")]
            impl ProgramToIdl for ShapeProgram {
                type Errors = ();
                fn crate_metadata() -> star_frame::star_frame_idl::CrateMetadata {
                    star_frame::star_frame_idl::CrateMetadata {
                        name: $name.to_string(),
                        ..star_frame::crate_metadata!()
                    }
                }
            }

            #[derive(InstructionSet)]
            pub enum ShapeInstructionSet {
                Run(Run),
            }

            #[derive(BorshSerialize, BorshDeserialize, Debug, Copy, Clone, InstructionArgs)]
            #[type_to_idl(program = ShapeProgram)]
            pub struct Run;

            #[derive(AccountSet, Debug)]
            pub struct RunAccounts {
                $($(#[$attr])* pub $field: $ty,)*
            }

            #[star_frame_instruction]
            fn Run(accounts: &mut RunAccounts) -> Result<()> {
                let _ = accounts;
                Ok(())
            }

            c17_support::fill_struct!([] RunClientAccounts { $($field),* });

            pub fn probe() -> c17_support::Probe {
                use c17_support::*;
                type P = ShapeProgram;
                let id = &<P as StarFrameProgram>::ID;
                Probe {
                    name: $name,
                    idl: || <P as star_frame::idl::ProgramToIdl>::program_to_idl().map_err(|e| format!("{e}")),
                    program_id: id.to_bytes(),
                    instructions: vec![ix_facts::<P, Run, _>(Some(metas_of::<<Run as StarFrameInstruction>::Accounts<'static, 'static>>(id)))],
                    accounts: vec![],
                    codecs: vec![],
                    skipped: vec![],
                }
            }
        }
    };
}

// ---- a fixed account after a variable-length group ------------------------------------------------------------------
shape_program!(vec_nested_tail, "c17many_vec_nested_tail", 0x61, {
    #[decode(arg = 1)]
    head_batch: Vec<SystemAccount>,
    tail: TailAccounts,
});
shape_program!(vec_nested_tail_deep, "c17many_vec_nested_tail_deep", 0x62, {
    #[decode(arg = 1)]
    head_batch: Vec<SystemAccount>,
    outer: OuterAccounts,
});
shape_program!(vec_single, "c17many_vec_single", 0x63, {
    #[decode(arg = 1)]
    batch: Vec<Mut<SystemAccount>>,
    closer: Signer,
});
shape_program!(vec_nested_fixed, "c17many_vec_nested_fixed", 0x64, {
    #[decode(arg = 1)]
    batch: Vec<SystemAccount>,
    pair: PairAccounts,
});
shape_program!(nested_tail_single, "c17many_nested_tail_single", 0x65, {
    tail: TailAccounts,
    closer: Signer,
});
shape_program!(array_single, "c17many_array_single", 0x66, {
    pair: [Mut<SystemAccount>; 2],
    closer: Signer,
});
// ---- every variable-length group after every fixed account ----------------------------------------------------------
// the two groups also declare how many accounts they may hold: a half-open range (..4 = 0 to 3 accounts) and an inclusive
// one; the IDL's `Many { min, max }` is inclusive at both ends (lib/props/c17.py MANY_RANGES has the expected bounds)
shape_program!(two_vecs, "c17many_two_vecs", 0x67, {
    #[decode(arg = 1)]
    #[idl(arg = (..4, ()))]
    first: Vec<SystemAccount>,
    #[decode(arg = 1)]
    #[idl(arg = (..=2, ()))]
    second: Vec<Mut<SystemAccount>>,
});
shape_program!(nested_tail_last, "c17many_nested_tail_last", 0x68, {
    payer: Signer<Mut<SystemAccount>>,
    tail: TailAccounts,
});
shape_program!(rest_last, "c17many_rest_last", 0x69, {
    payer: Signer<Mut<SystemAccount>>,
    marker: SystemAccount,
    others: Rest<Mut<SystemAccount>>,
});

/// every shape program, in the order of the list at the top of this file
pub fn __c17_probes() -> Vec<c17_support::Probe> {
    vec![
        vec_nested_tail::probe(),
        vec_nested_tail_deep::probe(),
        vec_single::probe(),
        vec_nested_fixed::probe(),
        nested_tail_single::probe(),
        array_single::probe(),
        two_vecs::probe(),
        nested_tail_last::probe(),
        rest_last::probe(),
    ]
}
