//! C16 correspondence harness: System / SPL Token / Associated Token bindings of star_frame and
//! star_frame_spl against the reference interface crates, on the same generated inputs.
//!
//! case file lines `<id> <int>...`; per case two observation lines are printed, `s<id> ...` (built
//! through the framework) and `r<id> ...` (built / unpacked by the reference crate).
//!
//!   kind 0  instruction : 0 prog ix n1 n2 n3 opt o1 o2 K0..K7 (8 x 32 bytes) nsig sig*(32 bytes)
//!                         (n1, n2 u64; n3 u8; opt 0/1; o1, o2 in {0 None, 1 Some(default id), 2 Some(K6 / K7)})
//!                         -> status pid*32 ndata data* nmetas (key*32 signer writable)*
//!   kind 1  mint image  : 1 owner_is_token writable nbytes bytes*
//!   kind 2  token image : 2 owner_is_token writable nbytes bytes*
//!                         -> s: validate-tag data_unchecked-tag [fields] data-tag 7777 probe*    r: unpack-tag [fields] unpack_unchecked-tag [fields]
//!                         probe* (validate_mint / validate_token, judged by the predicate only): the two original values
//!                         (right expectations: 0 = accepted; opposite freeze authority / other owner and mint: 1 = rejected),
//!                         then one value per probe group (8 for a mint, 6 for a token account): 1 = every probe of the group
//!                         behaved as required, 2 = not applicable, 100 + i = probe i did not; all 9 when the reference
//!                         rejects the image or the owner is foreign
//!   kind 3  ATA address : 3 wallet*32 mint*32           -> key*32
//!   kind 9  PDA oracle  : 9 pid*32 nseeds (len bytes*)* -> key*32 bump   (only an `s` line)
#![allow(clippy::all)]
use star_frame::account_set::AccountSetDecode as _;
use star_frame::pinocchio::account_info::AccountInfo as PinAccountInfo;
use star_frame::prelude::*;
use star_frame::program::system as sfsys;
use star_frame_spl::associated_token::{instructions as sfata, AssociatedToken};
use star_frame_spl::token::{instructions as sftok, state as sfstate, Token};
use std::io::{BufRead, Write};
use std::panic::{catch_unwind, AssertUnwindSafe};

use solana_program_pack::Pack;
use solana_instruction::Instruction as RefIx;
use spl_associated_token_account_interface as rata;
use spl_token_interface as rtok;
use solana_system_interface::instruction as rsys;

// ------------------------------------------------------------------------------------------------
// native pinocchio account (88-byte header + data + realloc headroom), as in harness/src/lib.rs
const HDR: usize = 88;
const HEADROOM: usize = 10 * 1024;
struct NativeAccount {
    buf: Vec<u64>,
}
impl NativeAccount {
    fn new(key: [u8; 32], owner: [u8; 32], lamports: u64, data: &[u8], is_signer: bool, is_writable: bool) -> Self {
        let total = HDR + data.len() + HEADROOM + 16;
        let mut buf = vec![0u64; (total + 7) / 8];
        let p = buf.as_mut_ptr().cast::<u8>();
        unsafe {
            *p = 0xFF; // NOT_BORROWED
            *p.add(1) = is_signer as u8;
            *p.add(2) = is_writable as u8;
            *p.add(3) = 0;
            p.add(4).cast::<i32>().write(0);
            std::ptr::copy_nonoverlapping(key.as_ptr(), p.add(8), 32);
            std::ptr::copy_nonoverlapping(owner.as_ptr(), p.add(40), 32);
            p.add(72).cast::<u64>().write(lamports);
            p.add(80).cast::<u64>().write(data.len() as u64);
            std::ptr::copy_nonoverlapping(data.as_ptr(), p.add(HDR), data.len());
        }
        NativeAccount { buf }
    }
    fn info(&self) -> PinAccountInfo {
        unsafe { std::mem::transmute::<*mut u8, PinAccountInfo>(self.buf.as_ptr().cast::<u8>().cast_mut()) }
    }
}

fn read_cases(path: &str) -> Vec<(String, Vec<i128>)> {
    let f = std::fs::File::open(path).expect("open case file");
    let mut out = vec![];
    for line in std::io::BufReader::new(f).lines() {
        let line = line.unwrap();
        let mut it = line.split_whitespace();
        let Some(id) = it.next() else { continue };
        let ints = it.map(|t| t.parse::<i128>().expect("int")).collect();
        out.push((id.to_string(), ints));
    }
    out
}

fn key_at(c: &[i128], off: usize) -> Option<Pubkey> {
    let s = c.get(off..off + 32)?;
    let mut k = [0u8; 32];
    for (i, x) in s.iter().enumerate() {
        if *x < 0 || *x > 255 {
            return None;
        }
        k[i] = *x as u8;
    }
    Some(Pubkey::new_from_array(k))
}

fn push_key(out: &mut Vec<i128>, k: &Pubkey) {
    out.extend(k.to_bytes().iter().map(|b| *b as i128));
}

fn obs_ix(ix: &RefIx) -> Vec<i128> {
    let mut o = vec![0];
    push_key(&mut o, &ix.program_id);
    o.push(ix.data.len() as i128);
    o.extend(ix.data.iter().map(|b| *b as i128));
    o.push(ix.accounts.len() as i128);
    for m in &ix.accounts {
        push_key(&mut o, &m.pubkey);
        o.push(m.is_signer as i128);
        o.push(m.is_writable as i128);
    }
    o
}

const BAD: i128 = -9; // malformed case

struct IxArgs {
    n1: u64,
    n2: u64,
    n3: u8,
    opt: bool,
    o1: Option<Pubkey>,
    o2: Option<Pubkey>,
    k: [Pubkey; 8],
    sig: Vec<Pubkey>,
}

/// o in {0 None, 1 Some(default id), 2 Some(arbitrary key)}
fn client_opt(o: i128, default: Pubkey, arbitrary: Pubkey) -> Option<Option<Pubkey>> {
    match o {
        0 => Some(None),
        1 => Some(Some(default)),
        2 => Some(Some(arbitrary)),
        _ => None,
    }
}

fn sf_res(r: star_frame::Result<RefIx>) -> Vec<i128> {
    match r {
        Ok(ix) => obs_ix(&ix),
        Err(e) => vec![1, u64::from(ProgramError::from(e)) as i128],
    }
}

fn rf_res<E: std::fmt::Debug>(r: std::result::Result<RefIx, E>) -> Vec<i128> {
    match r {
        Ok(ix) => obs_ix(&ix),
        Err(_) => vec![1],
    }
}

fn authority_types(n: u8) -> Option<(sftok::AuthorityType, rtok::instruction::AuthorityType)> {
    use rtok::instruction::AuthorityType as R;
    use sftok::AuthorityType as S;
    Some(match n {
        0 => (S::MintTokens, R::MintTokens),
        1 => (S::FreezeAccount, R::FreezeAccount),
        2 => (S::AccountOwner, R::AccountOwner),
        3 => (S::CloseAccount, R::CloseAccount),
        _ => return None,
    })
}

fn run_ix(c: &[i128]) -> (Vec<i128>, Vec<i128>) {
    const H: usize = 9;
    let bad = (vec![BAD], vec![BAD]);
    if c.len() < H + 256 + 1 {
        return bad;
    }
    let (prog, ix) = (c[1], c[2]);
    let u64ok = |x: i128| x >= 0 && x <= u64::MAX as i128;
    if !u64ok(c[3]) || !u64ok(c[4]) || c[5] < 0 || c[5] > 255 || (c[6] != 0 && c[6] != 1) {
        return bad;
    }
    let mut k = [Pubkey::default(); 8];
    for i in 0..8 {
        match key_at(c, H + 32 * i) {
            Some(x) => k[i] = x,
            None => return bad,
        }
    }
    let nsig = c[H + 256];
    if nsig < 0 || nsig > 64 || c.len() != H + 256 + 1 + 32 * nsig as usize {
        return bad;
    }
    let mut sig = vec![];
    for i in 0..nsig as usize {
        match key_at(c, H + 256 + 1 + 32 * i) {
            Some(x) => sig.push(x),
            None => return bad,
        }
    }
    let rent_id: Pubkey = <star_frame::pinocchio::sysvars::rent::Rent as star_frame::account_set::sysvar::SysvarId>::id();
    // which default ids the two client options of this instruction stand for
    let (d1, d2) = match (prog, ix) {
        (2, 0) | (2, 1) => (System::ID, Token::ID),
        (2, 2) => (Token::ID, Token::ID),
        _ => (rent_id, rent_id),
    };
    let (Some(o1), Some(o2)) = (client_opt(c[7], d1, k[6]), client_opt(c[8], d2, k[7])) else { return bad };
    let a = IxArgs { n1: c[3] as u64, n2: c[4] as u64, n3: c[5] as u8, opt: c[6] == 1, o1, o2, k, sig };
    match prog {
        0 => run_system(ix, &a),
        1 => run_token(ix, &a),
        2 => run_ata(ix, &a),
        _ => bad,
    }
}

fn run_system(ix: i128, a: &IxArgs) -> (Vec<i128>, Vec<i128>) {
    let k = &a.k;
    let rb = star_frame::account_set::sysvar::RECENT_BLOCKHASHES_ID;
    match ix {
        0 => (
            sf_res(System::instruction(
                &sfsys::CreateAccount { lamports: a.n1, space: a.n2, owner: k[2] },
                sfsys::CreateAccountClientAccounts { funder: k[0], new_account: k[1] },
            )),
            obs_ix(&rsys::create_account(&k[0], &k[1], a.n1, a.n2, &k[2])),
        ),
        1 => (
            sf_res(System::instruction(&sfsys::Assign { owner: k[1] }, sfsys::AssignClientAccounts { account: k[0] })),
            obs_ix(&rsys::assign(&k[0], &k[1])),
        ),
        2 => (
            sf_res(System::instruction(
                &sfsys::Transfer { lamports: a.n1 },
                sfsys::TransferClientAccounts { funder: k[0], recipient: k[1] },
            )),
            obs_ix(&rsys::transfer(&k[0], &k[1], a.n1)),
        ),
        3 => (
            sf_res(System::instruction(
                &sfsys::AdvanceNonceAccount,
                sfsys::AdvanceNonceAccountClientAccounts { nonce_account: k[0], recent_blockhashes: rb, nonce_authority: k[1] },
            )),
            obs_ix(&rsys::advance_nonce_account(&k[0], &k[1])),
        ),
        4 => (
            sf_res(System::instruction(
                &sfsys::WithdrawNonceAccount(a.n1),
                sfsys::WithdrawNonceAccountClientAccounts {
                    nonce_account: k[0],
                    recipient: k[2],
                    recent_blockhashes: rb,
                    rent: a.o1,
                    nonce_authority: k[1],
                },
            )),
            obs_ix(&rsys::withdraw_nonce_account(&k[0], &k[1], &k[2], a.n1)),
        ),
        5 => {
            // the reference has no stand-alone builder: InitializeNonceAccount is the second
            // instruction of create_nonce_account
            let v = rsys::create_nonce_account(&k[3], &k[0], &k[1], a.n1);
            (
                sf_res(System::instruction(
                    &sfsys::InitializeNonceAccount(k[1]),
                    sfsys::InitializeNonceAccountClientAccounts { nonce_account: k[0], recent_blockhashes: rb, rent: a.o1 },
                )),
                if v.len() == 2 { obs_ix(&v[1]) } else { vec![1] },
            )
        }
        6 => (
            sf_res(System::instruction(
                &sfsys::AuthorizeNonceAccount(k[2]),
                sfsys::AuthorizeNonceAccountClientAccounts { nonce_account: k[0], nonce_authority: k[1] },
            )),
            obs_ix(&rsys::authorize_nonce_account(&k[0], &k[1], &k[2])),
        ),
        7 => (
            sf_res(System::instruction(&sfsys::Allocate { space: a.n1 }, sfsys::AllocateClientAccounts { account: k[0] })),
            obs_ix(&rsys::allocate(&k[0], a.n1)),
        ),
        8 => (
            sf_res(System::instruction(
                &sfsys::UpgradeNonceAccount,
                sfsys::UpgradeNonceAccountClientAccounts { nonce_account: k[0] },
            )),
            obs_ix(&rsys::upgrade_nonce_account(k[0])),
        ),
        _ => (vec![BAD], vec![BAD]),
    }
}

fn run_token(ix: i128, a: &IxArgs) -> (Vec<i128>, Vec<i128>) {
    use rtok::instruction as r;
    let k = &a.k;
    let tid = rtok::id();
    let sigs: Vec<&Pubkey> = a.sig.iter().collect();
    let optk = if a.opt { Some(k[2]) } else { None };
    match ix {
        0 => (
            sf_res(Token::instruction(
                &sftok::InitializeMint { decimals: a.n3, mint_authority: k[1], freeze_authority: optk },
                sftok::InitializeMintClientAccounts { mint: k[0], rent: a.o1 },
            )),
            rf_res(r::initialize_mint(&tid, &k[0], &k[1], optk.as_ref(), a.n3)),
        ),
        1 => (
            sf_res(Token::instruction(
                &sftok::InitializeAccount,
                sftok::InitializeAccountClientAccounts { account: k[0], mint: k[1], owner: k[2], rent: a.o1 },
            )),
            rf_res(r::initialize_account(&tid, &k[0], &k[1], &k[2])),
        ),
        2 => (
            sf_res(Token::instruction(
                &sftok::InitializeMultisig { m: a.n3 },
                sftok::InitializeMultisigClientAccounts { multisig: k[0], rent: a.o1, signers: a.sig.clone() },
            )),
            rf_res(r::initialize_multisig(&tid, &k[0], &sigs, a.n3)),
        ),
        3 => (
            sf_res(Token::instruction(
                &sftok::Transfer { amount: a.n1 },
                sftok::TransferClientAccounts { source: k[0], destination: k[1], owner: k[2] },
            )),
            rf_res(r::transfer(&tid, &k[0], &k[1], &k[2], &sigs, a.n1)),
        ),
        4 => (
            sf_res(Token::instruction(
                &sftok::Approve { amount: a.n1 },
                sftok::ApproveClientAccounts { source: k[0], delegate: k[1], owner: k[2] },
            )),
            rf_res(r::approve(&tid, &k[0], &k[1], &k[2], &sigs, a.n1)),
        ),
        5 => (
            sf_res(Token::instruction(&sftok::Revoke, sftok::RevokeClientAccounts { source: k[0], owner: k[1] })),
            rf_res(r::revoke(&tid, &k[0], &k[1], &sigs)),
        ),
        6 => {
            let Some((sa, ra)) = authority_types(a.n3) else { return (vec![BAD], vec![BAD]) };
            (
                sf_res(Token::instruction(
                    &sftok::SetAuthority { authority_type: sa, new_authority: optk },
                    sftok::SetAuthorityClientAccounts { account: k[0], current_authority: k[1] },
                )),
                rf_res(r::set_authority(&tid, &k[0], optk.as_ref(), ra, &k[1], &sigs)),
            )
        }
        7 => (
            sf_res(Token::instruction(
                &sftok::MintTo { amount: a.n1 },
                sftok::MintToClientAccounts { mint: k[0], account: k[1], mint_authority: k[2] },
            )),
            rf_res(r::mint_to(&tid, &k[0], &k[1], &k[2], &sigs, a.n1)),
        ),
        8 => (
            sf_res(Token::instruction(
                &sftok::Burn { amount: a.n1 },
                sftok::BurnClientAccounts { account: k[0], mint: k[1], owner: k[2] },
            )),
            rf_res(r::burn(&tid, &k[0], &k[1], &k[2], &sigs, a.n1)),
        ),
        9 => (
            sf_res(Token::instruction(
                &sftok::CloseAccount,
                sftok::CloseAccountClientAccounts { account: k[0], destination: k[1], owner: k[2] },
            )),
            rf_res(r::close_account(&tid, &k[0], &k[1], &k[2], &sigs)),
        ),
        10 => (
            sf_res(Token::instruction(
                &sftok::FreezeAccount,
                sftok::FreezeAccountClientAccounts { account: k[0], mint: k[1], authority: k[2] },
            )),
            rf_res(r::freeze_account(&tid, &k[0], &k[1], &k[2], &sigs)),
        ),
        11 => (
            sf_res(Token::instruction(
                &sftok::ThawAccount,
                sftok::ThawAccountClientAccounts { account: k[0], mint: k[1], authority: k[2] },
            )),
            rf_res(r::thaw_account(&tid, &k[0], &k[1], &k[2], &sigs)),
        ),
        12 => (
            sf_res(Token::instruction(
                &sftok::TransferChecked { amount: a.n1, decimals: a.n3 },
                sftok::TransferCheckedClientAccounts { source: k[0], mint: k[1], destination: k[2], owner: k[3] },
            )),
            rf_res(r::transfer_checked(&tid, &k[0], &k[1], &k[2], &k[3], &sigs, a.n1, a.n3)),
        ),
        13 => (
            sf_res(Token::instruction(
                &sftok::ApproveChecked { amount: a.n1, decimals: a.n3 },
                sftok::ApproveCheckedClientAccounts { source: k[0], mint: k[1], delegate: k[2], owner: k[3] },
            )),
            rf_res(r::approve_checked(&tid, &k[0], &k[1], &k[2], &k[3], &sigs, a.n1, a.n3)),
        ),
        14 => (
            sf_res(Token::instruction(
                &sftok::MintToChecked { amount: a.n1, decimals: a.n3 },
                sftok::MintToCheckedClientAccounts { mint: k[0], account: k[1], mint_authority: k[2] },
            )),
            rf_res(r::mint_to_checked(&tid, &k[0], &k[1], &k[2], &sigs, a.n1, a.n3)),
        ),
        15 => (
            sf_res(Token::instruction(
                &sftok::BurnChecked { amount: a.n1, decimals: a.n3 },
                sftok::BurnCheckedClientAccounts { account: k[0], mint: k[1], owner: k[2] },
            )),
            rf_res(r::burn_checked(&tid, &k[0], &k[1], &k[2], &sigs, a.n1, a.n3)),
        ),
        16 => (
            sf_res(Token::instruction(
                &sftok::InitializeAccount2 { owner: k[2] },
                sftok::InitializeAccount2ClientAccounts { account: k[0], mint: k[1], rent: a.o1 },
            )),
            rf_res(r::initialize_account2(&tid, &k[0], &k[1], &k[2])),
        ),
        17 => (
            sf_res(Token::instruction(&sftok::SyncNative, sftok::SyncNativeClientAccounts { account: k[0] })),
            rf_res(r::sync_native(&tid, &k[0])),
        ),
        18 => (
            sf_res(Token::instruction(
                &sftok::InitializeAccount3 { owner: k[2] },
                sftok::InitializeAccount3ClientAccounts { account: k[0], mint: k[1] },
            )),
            rf_res(r::initialize_account3(&tid, &k[0], &k[1], &k[2])),
        ),
        19 => (
            sf_res(Token::instruction(
                &sftok::InitializeMultisig2 { m: a.n3 },
                sftok::InitializeMultisig2ClientAccounts { multisig: k[0], signers: a.sig.clone() },
            )),
            rf_res(r::initialize_multisig2(&tid, &k[0], &sigs, a.n3)),
        ),
        20 => (
            sf_res(Token::instruction(
                &sftok::InitializeMint2 { decimals: a.n3, mint_authority: k[1], freeze_authority: optk },
                sftok::InitializeMint2ClientAccounts { mint: k[0] },
            )),
            rf_res(r::initialize_mint2(&tid, &k[0], &k[1], optk.as_ref(), a.n3)),
        ),
        21 => (
            sf_res(Token::instruction(&sftok::GetAccountDataSize, sftok::GetAccountDataSizeClientAccounts { mint: k[0] })),
            rf_res(r::get_account_data_size(&tid, &k[0])),
        ),
        22 => (
            sf_res(Token::instruction(
                &sftok::InitializeImmutableOwner,
                sftok::InitializeImmutableOwnerClientAccounts { account: k[0] },
            )),
            rf_res(r::initialize_immutable_owner(&tid, &k[0])),
        ),
        23 => (
            sf_res(Token::instruction(
                &sftok::AmountToUiAmount { amount: a.n1 },
                sftok::AmountToUiAmountClientAccounts { mint: k[0] },
            )),
            rf_res(r::amount_to_ui_amount(&tid, &k[0], a.n1)),
        ),
        _ => (vec![BAD], vec![BAD]),
    }
}

fn run_ata(ix: i128, a: &IxArgs) -> (Vec<i128>, Vec<i128>) {
    use rata::address::get_associated_token_address_with_program_id as ata_of;
    let k = &a.k;
    // funder k0, wallet k1, mint k2; the token program the reference derives with is the one the
    // framework client passes (None = the binding's default, Token::ID)
    match ix {
        0 | 1 => {
            let tp = a.o2.unwrap_or(Token::ID);
            let token_account = ata_of(&k[1], &k[2], &tp);
            let accts = sfata::CreateClientAccounts {
                funder: k[0],
                token_account,
                wallet: k[1],
                mint: k[2],
                system_program: a.o1,
                token_program: a.o2,
            };
            if ix == 0 {
                (
                    sf_res(AssociatedToken::instruction(&sfata::Create, accts)),
                    obs_ix(&rata::instruction::create_associated_token_account(&k[0], &k[1], &k[2], &tp)),
                )
            } else {
                (
                    sf_res(AssociatedToken::instruction(&sfata::CreateIdempotent, accts)),
                    obs_ix(&rata::instruction::create_associated_token_account_idempotent(&k[0], &k[1], &k[2], &tp)),
                )
            }
        }
        2 => {
            // wallet k0, owner mint k1, nested mint k2
            let tp = a.o1.unwrap_or(Token::ID);
            let owner_ata = ata_of(&k[0], &k[1], &tp);
            let destination_ata = ata_of(&k[0], &k[2], &tp);
            let nested_ata = ata_of(&owner_ata, &k[2], &tp);
            (
                sf_res(AssociatedToken::instruction(
                    &sfata::RecoverNested,
                    sfata::RecoverNestedClientAccounts {
                        nested_ata,
                        nested_mint: k[2],
                        destination_ata,
                        owner_ata,
                        owner_mint: k[1],
                        wallet: k[0],
                        token_program: a.o1,
                    },
                )),
                obs_ix(&rata::instruction::recover_nested(&k[0], &k[1], &k[2], &tp)),
            )
        }
        _ => (vec![BAD], vec![BAD]),
    }
}

// ------------------------------------------------------------------------------------------------
// account images
type RefErr = solana_program_error::ProgramError;

fn sf_code(e: star_frame::errors::Error) -> i128 {
    u64::from(ProgramError::from(e)) as i128
}

fn push_pod_key(out: &mut Vec<i128>, o: star_frame_spl::pod::PodOption<Pubkey>) {
    out.push(o.is_some() as i128);
    out.push(o.is_none() as i128);
    push_opt_key(out, o.into_option());
}

fn push_opt_key(out: &mut Vec<i128>, o: Option<Pubkey>) {
    match o {
        Some(k) => {
            out.push(1);
            push_key(out, &k)
        }
        None => out.push(0),
    }
}

fn image_args(c: &[i128]) -> Option<(bool, bool, Vec<u8>)> {
    if c.len() < 4 || c[3] < 0 || c.len() != 4 + c[3] as usize {
        return None;
    }
    let mut d = vec![];
    for x in &c[4..] {
        if *x < 0 || *x > 255 {
            return None;
        }
        d.push(*x as u8);
    }
    Some((c[1] != 0, c[2] != 0, d))
}

const OTHER_OWNER: [u8; 32] = [7u8; 32];

// ---- probes of validate_mint / validate_token (after the marker 7777; judged by the predicate only) ----
/// number of probe-group values after the two original probe values
const MINT_GROUPS: usize = 8;
const TOKEN_GROUPS: usize = 6;
/// one bit in each 8-byte quarter of a key
const FLIPS: [(usize, u8); 4] = [(0, 0), (11, 3), (21, 5), (31, 7)];

fn flip(k: &Pubkey, byte: usize, bit: u8) -> Pubkey {
    let mut b = k.to_bytes();
    b[byte] ^= 1 << bit;
    Pubkey::new_from_array(b)
}

fn complement(k: &Pubkey) -> Pubkey {
    let mut b = k.to_bytes();
    for x in b.iter_mut() {
        *x = !*x;
    }
    Pubkey::new_from_array(b)
}

fn raw_key(data: &[u8], off: usize) -> Pubkey {
    let mut b = [0u8; 32];
    b.copy_from_slice(&data[off..off + 32]);
    Pubkey::new_from_array(b)
}

/// a group of probes: `None` = not applicable, `Some(true)` = behaved as required.
/// value: 1 = every applicable probe behaved as required, 2 = no applicable probe, 100 + i = probe i did not
fn group_value(v: &[Option<bool>]) -> i128 {
    if let Some(i) = v.iter().position(|x| *x == Some(false)) {
        return 100 + i as i128;
    }
    if v.iter().all(|x| x.is_none()) {
        2
    } else {
        1
    }
}

fn run_mint(c: &[i128]) -> (Vec<i128>, Vec<i128>) {
    let Some((own, wr, data)) = image_args(c) else { return (vec![BAD], vec![BAD]) };
    let owner = if own { Token::ID.to_bytes() } else { OTHER_OWNER };
    let na = NativeAccount::new([9; 32], owner, 1_000_000, &data, false, wr);
    let info = na.info();
    let mut ctx = Context::default();
    let mut s = vec![];
    match sfstate::MintAccount::decode_accounts(&mut std::slice::from_ref(&info), (), &mut ctx) {
        Err(_) => s.push(BAD),
        Ok(m) => {
            match m.validate() {
                Ok(()) => s.push(0),
                Err(e) => s.extend([1, sf_code(e)]),
            }
            match m.data_unchecked() {
                Ok(d) => {
                    s.push(0);
                    push_pod_key(&mut s, d.mint_authority);
                    s.push({ d.supply } as i128);
                    s.push(d.decimals as i128);
                    s.push(d.is_initialized as i128);
                    push_pod_key(&mut s, d.freeze_authority);
                }
                Err(e) => s.extend([1, sf_code(e)]),
            }
            match m.data() {
                Ok(_) => s.push(0),
                Err(e) => s.extend([1, sf_code(e)]),
            }
            // validation against expectations taken from the REFERENCE's reading of the same image: must pass; with the
            // opposite freeze-authority expectation it must fail (judged by the predicate only)
            s.push(7777);
            match rtok::state::Mint::unpack(&data) {
                Ok(rm) if own => {
                    let ma: Option<Pubkey> = rm.mint_authority.into();
                    let fa: Option<Pubkey> = rm.freeze_authority.into();
                    let other = Pubkey::new_from_array([0x5A; 32]);
                    let expect = sfstate::ValidateMint {
                        decimals: Some(rm.decimals),
                        authority: ma.as_ref(),
                        freeze_authority: match &fa { Some(k) => sfstate::FreezeAuthority::Some(k), None => sfstate::FreezeAuthority::None },
                    };
                    s.push(match m.validate_mint(expect) { Ok(()) => 0, Err(_) => 1 });
                    let opposite = sfstate::ValidateMint {
                        decimals: None,
                        authority: None,
                        freeze_authority: match &fa { Some(_) => sfstate::FreezeAuthority::None, None => sfstate::FreezeAuthority::Some(&other) },
                    };
                    s.push(match m.validate_mint(opposite) { Ok(()) => 0, Err(_) => 1 });
                    // NEGATIVE probes: expectations the reference's reading of the image does NOT support must be
                    // rejected.  The keys are taken from the raw image (the 32 bytes behind a COption tag, which are
                    // stale when the tag is None), from the reference's values with one bit flipped, and unrelated keys.
                    use sfstate::FreezeAuthority as FA;
                    let raw_ma = raw_key(&data, 4);
                    let raw_fa = raw_key(&data, 50);
                    let zero = Pubkey::default();
                    let d = rm.decimals;
                    let right_fa = match &fa { Some(k) => FA::Some(k), None => FA::None };
                    let rejects = |decimals: Option<u8>, authority: Option<&Pubkey>, freeze_authority: FA| -> Option<bool> {
                        Some(m.validate_mint(sfstate::ValidateMint { decimals, authority, freeze_authority }).is_err())
                    };
                    let accepts = |decimals: Option<u8>, authority: Option<&Pubkey>, freeze_authority: FA| -> Option<bool> {
                        Some(m.validate_mint(sfstate::ValidateMint { decimals, authority, freeze_authority }).is_ok())
                    };
                    let when = |c: bool, r: Option<bool>| if c { r } else { None };
                    // g0: the reference reports NO mint authority: the (stale) key bytes behind the None tag are not an authority
                    let g0 = [
                        when(ma.is_none(), rejects(None, Some(&raw_ma), FA::Any)),
                        when(ma.is_none(), rejects(Some(d), Some(&raw_ma), right_fa)),
                    ];
                    // g1: the key at the mint_authority slot with one bit flipped
                    let g1: Vec<Option<bool>> = FLIPS.iter().map(|(b, i)| rejects(None, Some(&flip(&raw_ma, *b, *i)), FA::Any)).collect();
                    // g2: unrelated mint authorities
                    let g2: Vec<Option<bool>> = [other, zero, raw_fa, complement(&raw_ma)]
                        .iter()
                        .map(|k| when(ma != Some(*k), rejects(None, Some(k), FA::Any)))
                        .collect();
                    // g3: wrong decimals
                    let g3 = [
                        rejects(Some(d.wrapping_add(1)), None, FA::Any),
                        rejects(Some(d.wrapping_sub(1)), None, FA::Any),
                        rejects(Some(d ^ 0x80), None, FA::Any),
                        rejects(Some(d.wrapping_add(1)), ma.as_ref(), right_fa),
                    ];
                    // g4: the reference reports NO freeze authority: the (stale) key bytes behind the None tag are not one
                    let g4 = [
                        when(fa.is_none(), rejects(None, None, FA::Some(&raw_fa))),
                        when(fa.is_none(), rejects(Some(d), ma.as_ref(), FA::Some(&raw_fa))),
                    ];
                    // g5: wrong freeze authorities (one bit flipped, unrelated keys)
                    let mut g5: Vec<Option<bool>> = FLIPS.iter().map(|(b, i)| rejects(None, None, FA::Some(&flip(&raw_fa, *b, *i)))).collect();
                    for k in [other, zero, raw_ma, complement(&raw_fa)] {
                        g5.push(when(fa != Some(k), rejects(None, None, FA::Some(&k))));
                    }
                    // g6: exactly one wrong expectation among right ones
                    let wrong_fa = match &fa { Some(_) => FA::None, None => FA::Some(&other) };
                    let g6 = [
                        when(ma != Some(other), rejects(Some(d), Some(&other), right_fa)),
                        rejects(Some(d), ma.as_ref(), wrong_fa),
                        when(fa.is_some() && fa != Some(other), rejects(Some(d), ma.as_ref(), FA::Some(&other))),
                    ];
                    // g7 (positive): every single right expectation alone, and no expectation at all, is accepted
                    let g7 = [
                        accepts(Some(d), None, FA::Any),
                        when(ma.is_some(), accepts(None, ma.as_ref(), FA::Any)),
                        accepts(None, None, right_fa),
                        accepts(None, None, FA::Any),
                    ];
                    let groups: [&[Option<bool>]; MINT_GROUPS] = [&g0, &g1, &g2, &g3, &g4, &g5, &g6, &g7];
                    s.extend(groups.iter().map(|g| group_value(g)));
                }
                _ => s.extend([9; 2 + MINT_GROUPS]),
            }
        }
    }
    let mut r = vec![];
    for res in [rtok::state::Mint::unpack(&data), rtok::state::Mint::unpack_unchecked(&data)] {
        let res: std::result::Result<rtok::state::Mint, RefErr> = res;
        match res {
            Ok(m) => {
                r.push(0);
                push_opt_key(&mut r, m.mint_authority.into());
                r.push(m.supply as i128);
                r.push(m.decimals as i128);
                r.push(m.is_initialized as i128);
                push_opt_key(&mut r, m.freeze_authority.into());
            }
            Err(e) => r.extend([1, u64::from(e) as i128]),
        }
    }
    (s, r)
}

fn run_token_image(c: &[i128]) -> (Vec<i128>, Vec<i128>) {
    let Some((own, wr, data)) = image_args(c) else { return (vec![BAD], vec![BAD]) };
    let owner = if own { Token::ID.to_bytes() } else { OTHER_OWNER };
    let na = NativeAccount::new([9; 32], owner, 1_000_000, &data, false, wr);
    let info = na.info();
    let mut ctx = Context::default();
    let mut s = vec![];
    match sfstate::TokenAccount::decode_accounts(&mut std::slice::from_ref(&info), (), &mut ctx) {
        Err(_) => s.push(BAD),
        Ok(m) => {
            match m.validate() {
                Ok(()) => s.push(0),
                Err(e) => s.extend([1, sf_code(e)]),
            }
            match m.data_unchecked() {
                Ok(d) => {
                    s.push(0);
                    push_key(&mut s, &{ d.mint }.pubkey());
                    push_key(&mut s, &{ d.owner });
                    s.push({ d.amount } as i128);
                    push_pod_key(&mut s, d.delegate);
                    s.push(d.state as u8 as i128);
                    let n = d.is_native;
                    s.push(n.is_some() as i128);
                    s.push(n.is_none() as i128);
                    match n.into_option() {
                        Some(v) => s.extend([1, v as i128]),
                        None => s.push(0),
                    }
                    s.push({ d.delegated_amount } as i128);
                    push_pod_key(&mut s, d.close_authority);
                }
                Err(e) => s.extend([1, sf_code(e)]),
            }
            match m.data() {
                Ok(_) => s.push(0),
                Err(e) => s.extend([1, sf_code(e)]),
            }
            // validate_token against the mint / owner the REFERENCE reads from the same image: must pass; against another
            // owner / another mint: must fail (judged by the predicate only)
            s.push(7777);
            match rtok::state::Account::unpack(&data) {
                Ok(ra) if own => {
                    let other = Pubkey::new_from_array([0x5A; 32]);
                    let ok = m.validate_token(sfstate::ValidateToken { mint: Some(KeyFor::new(ra.mint)), owner: Some(ra.owner) });
                    s.push(match ok { Ok(()) => 0, Err(_) => 1 });
                    let wrong_owner = m.validate_token(sfstate::ValidateToken { mint: None, owner: Some(other) });
                    let wrong_mint = m.validate_token(sfstate::ValidateToken { mint: Some(KeyFor::new(other)), owner: None });
                    s.push(match (wrong_owner, wrong_mint) {
                        (Err(_), Err(_)) => 1,
                        _ => if ra.owner == other || ra.mint == other { 1 } else { 0 },
                    });
                    // NEGATIVE probes (ValidateToken has exactly the expectations `mint` and `owner`): keys the reference
                    // does not report as the mint / the owner must be rejected - one bit flipped, keys taken from the other
                    // slots of the raw image (including the stale bytes behind a None delegate / close_authority tag),
                    // unrelated keys
                    let raw_delegate = raw_key(&data, 76);
                    let raw_close = raw_key(&data, 133);
                    let zero = Pubkey::default();
                    let (mint, owner) = (ra.mint, ra.owner);
                    let rejects = |mint: Option<Pubkey>, owner: Option<Pubkey>| -> Option<bool> {
                        Some(m.validate_token(sfstate::ValidateToken { mint: mint.map(KeyFor::new), owner }).is_err())
                    };
                    let accepts = |mint: Option<Pubkey>, owner: Option<Pubkey>| -> Option<bool> {
                        Some(m.validate_token(sfstate::ValidateToken { mint: mint.map(KeyFor::new), owner }).is_ok())
                    };
                    let when = |c: bool, r: Option<bool>| if c { r } else { None };
                    let t0: Vec<Option<bool>> = FLIPS.iter().map(|(b, i)| rejects(None, Some(flip(&owner, *b, *i)))).collect();
                    let t1: Vec<Option<bool>> = FLIPS.iter().map(|(b, i)| rejects(Some(flip(&mint, *b, *i)), None)).collect();
                    let t2: Vec<Option<bool>> = [raw_delegate, raw_close, mint, zero, other, complement(&owner)]
                        .iter()
                        .map(|k| when(*k != owner, rejects(None, Some(*k))))
                        .collect();
                    let t3: Vec<Option<bool>> = [raw_delegate, raw_close, owner, zero, other, complement(&mint)]
                        .iter()
                        .map(|k| when(*k != mint, rejects(Some(*k), None)))
                        .collect();
                    // exactly one wrong expectation next to a right one; the two keys swapped
                    let t4 = [
                        rejects(Some(mint), Some(flip(&owner, 31, 0))),
                        rejects(Some(flip(&mint, 31, 0)), Some(owner)),
                        when(raw_delegate != owner, rejects(Some(mint), Some(raw_delegate))),
                        when(raw_close != owner, rejects(Some(mint), Some(raw_close))),
                        when(mint != owner, rejects(Some(owner), Some(mint))),
                    ];
                    // positive: each right expectation alone, and no expectation, is accepted
                    let t5 = [accepts(Some(mint), None), accepts(None, Some(owner)), accepts(None, None)];
                    let groups: [&[Option<bool>]; TOKEN_GROUPS] = [&t0, &t1, &t2, &t3, &t4, &t5];
                    s.extend(groups.iter().map(|g| group_value(g)));
                }
                _ => s.extend([9; 2 + TOKEN_GROUPS]),
            }
        }
    }
    let mut r = vec![];
    for res in [rtok::state::Account::unpack(&data), rtok::state::Account::unpack_unchecked(&data)] {
        let res: std::result::Result<rtok::state::Account, RefErr> = res;
        match res {
            Ok(m) => {
                r.push(0);
                push_key(&mut r, &m.mint);
                push_key(&mut r, &m.owner);
                r.push(m.amount as i128);
                push_opt_key(&mut r, m.delegate.into());
                r.push(m.state as u8 as i128);
                match Option::<u64>::from(m.is_native) {
                    Some(v) => r.extend([1, v as i128]),
                    None => r.push(0),
                }
                r.push(m.delegated_amount as i128);
                push_opt_key(&mut r, m.close_authority.into());
            }
            Err(e) => r.extend([1, u64::from(e) as i128]),
        }
    }
    (s, r)
}

// ------------------------------------------------------------------------------------------------
fn run_ata_address(c: &[i128]) -> (Vec<i128>, Vec<i128>) {
    let (Some(wallet), Some(mint)) = (key_at(c, 1), key_at(c, 33)) else { return (vec![BAD], vec![BAD]) };
    if c.len() != 65 {
        return (vec![BAD], vec![BAD]);
    }
    let mut s = vec![];
    let mk: KeyFor<sfstate::MintAccount> = KeyFor::new(mint);
    push_key(&mut s, &AssociatedToken::find_address(&wallet, &mk));
    let mut r = vec![];
    push_key(&mut r, &rata::address::get_associated_token_address(&wallet, &mint));
    (s, r)
}

/// the PDA oracle the model is parametric in: the real `Pubkey::find_program_address`
fn run_oracle(c: &[i128]) -> Vec<i128> {
    let Some(pid) = key_at(c, 1) else { return vec![BAD] };
    let Some(&n) = c.get(33) else { return vec![BAD] };
    let mut i = 34;
    let mut seeds: Vec<Vec<u8>> = vec![];
    for _ in 0..n {
        let Some(&l) = c.get(i) else { return vec![BAD] };
        i += 1;
        let Some(bs) = c.get(i..i + l as usize) else { return vec![BAD] };
        seeds.push(bs.iter().map(|x| *x as u8).collect());
        i += l as usize;
    }
    let refs: Vec<&[u8]> = seeds.iter().map(|v| v.as_slice()).collect();
    let r = catch_unwind(AssertUnwindSafe(|| Pubkey::find_program_address(&refs, &pid)));
    match r {
        Ok((k, b)) => {
            let mut o = vec![];
            push_key(&mut o, &k);
            o.push(b as i128);
            o
        }
        Err(_) => vec![BAD],
    }
}

fn main() {
    let args: Vec<String> = std::env::args().collect();
    let cases = read_cases(&args[1]);
    let stdout = std::io::stdout();
    let mut w = std::io::BufWriter::new(stdout.lock());
    let mut line = |p: &str, id: &str, v: &[i128]| {
        write!(w, "{p}{id}").unwrap();
        for o in v {
            write!(w, " {o}").unwrap();
        }
        writeln!(w).unwrap();
    };
    for (id, c) in &cases {
        let (s, r) = match c.first() {
            Some(0) => run_ix(c),
            Some(1) => run_mint(c),
            Some(2) => run_token_image(c),
            Some(3) => run_ata_address(c),
            Some(9) => {
                line("s", id, &run_oracle(c));
                continue;
            }
            _ => (vec![BAD], vec![BAD]),
        };
        line("s", id, &s);
        line("r", id, &r);
    }
    drop(line);
    w.flush().unwrap();
}
